//! Suite `lat`: the real server under **modulator latency**.  A burst of requests, socket closes and
//! (re-)identifications is issued while every modulator call parks inside the scripted modulator, i.e. while the
//! handlers that made them are suspended at their await points (holding whatever locks they hold there).  The
//! harness then releases the parked calls in a random order with random outcomes (ok / error / never, so that
//! `request_timeout` fires), possibly issuing more operations in between.  At quiescence an auditor, which uses
//! only what clients can observe, evaluates the property statements directly on the implementation:
//!
//!  * C13: every request was answered by one frame with its id, or its connection was closed, within
//!         `request_timeout`; a canary connection can still connect / join / broadcast / leave afterwards; the
//!         worker thread never blocks (wall-clock watchdog);
//!  * C12: never two answers for one id, never an id that was not sent;
//!  * C05: CHANNELS of every live user and MEMBERS of every channel describe one relation; nobody without a live
//!         connection is a member; a channel exists iff it has a (live) member;
//!  * C01: after all that, a broadcast on each channel reaches exactly the connections of its listed members.
//!
//! This suite has no Lean counterpart line by line (the sequential model does not interleave handlers); it is the
//! validation of the *atomicity assumption* under which the sequential theorems describe the code, and the place
//! where schedule-dependent defects are searched for.
use std::collections::{BTreeMap, BTreeSet};
use std::fmt::Write as _;
use std::sync::Arc;
use std::sync::atomic::{AtomicU64, Ordering};

use narwhal_modulator::modulator::Operation;
use narwhal_protocol::Message;

use crate::rng::Rng;
use crate::srv::*;
use crate::srv_suite::Req;

const USERS: &[&str] = &["alice", "bob", "carol"];
const CHANS: &[&str] = &["c1", "c2"];

struct Sent {
  conn: usize,
  id: u32,
  what: String,
}

struct Case {
  /// modulator authentication: a user may hold several connections (AUTH instead of IDENTIFY)
  auth: bool,
  srv: Srv,
  rng: Rng,
  /// connection -> authenticated username (as acknowledged)
  user: BTreeMap<usize, String>,
  /// connections whose socket we closed or that the server closed
  dead: BTreeSet<usize>,
  /// got a closing ERROR, EOF not yet seen
  closing: BTreeSet<usize>,
  /// every frame received per connection, in order
  inbox: BTreeMap<usize, Vec<RFrame>>,
  sent: Vec<Sent>,
  next_id: u32,
  log: String,
  fails: Vec<String>,
}

fn full(h: &str) -> String {
  format!("!{h}@localhost")
}

impl Case {
  fn id(&mut self) -> u32 {
    self.next_id += 1;
    self.next_id
  }

  async fn pump(&mut self, ms: u64) {
    self.srv.settle(ms).await;
    let got = self.srv.collect().await;
    for (k, (frames, eof)) in got {
      for f in &frames {
        if let Message::IdentifyAck(p) = &f.msg {
          let u = p.nid.to_string().split('@').next().unwrap_or("").to_string();
          self.user.insert(k, u);
        }
        if let Message::AuthAck(p) = &f.msg {
          if let (Some(true), Some(n)) = (p.succeeded, &p.nid) {
            let u = n.to_string().split('@').next().unwrap_or("").to_string();
            self.user.insert(k, u);
          }
        }
      }
      if !frames.is_empty() {
        let _ = writeln!(self.log, "  <- {k}: {}", frames.iter().map(|f| f.text.clone()).collect::<Vec<_>>().join(" | "));
      }
      // a non-recoverable ERROR announces the close: the server has stopped reading this connection (its teardown may
      // still be waiting for the modulator before the socket is shut), so nothing sent from now on can be answered
      let closing = frames.iter().any(|f| {
        if let Message::Error(p) = &f.msg {
          !narwhal_protocol::Error { id: None, reason: p.reason.as_ref().parse::<narwhal_protocol::ErrorReason>().unwrap_or(narwhal_protocol::ErrorReason::InternalServerError), detail: None }.is_recoverable()
        } else {
          false
        }
      });
      self.inbox.entry(k).or_default().extend(frames);
      if closing && !self.dead.contains(&k) {
        let _ = writeln!(self.log, "  <- {k}: closing (non-recoverable ERROR received)");
        self.closing.insert(k);
        self.dead.insert(k);
      }
      if eof {
        let _ = writeln!(self.log, "  <- {k}: closed by the server");
        self.dead.insert(k);
        self.closing.remove(&k);
      }
    }
  }

  async fn request(&mut self, k: usize, r: Req) {
    let id = match &r {
      Req::Join { id, .. }
      | Req::Leave { id, .. }
      | Req::Broadcast { id, .. }
      | Req::Members { id, .. }
      | Req::Channels { id, .. }
      | Req::GetConfig { id, .. } => Some(*id),
      _ => None,
    };
    let _ = writeln!(self.log, "op {k} {}", r.model());
    if std::env::var("LAT_TRACE").is_ok() {
      eprintln!("op {k} {}", r.model());
    }
    if let Some(w) = r.wire() {
      self.srv.send(k, &w).await;
    }
    if let Some(id) = id {
      self.sent.push(Sent { conn: k, id, what: r.kind_name().to_string() });
    }
    self.pump(1).await;
  }

  async fn open_identify(&mut self, name: &str) -> usize {
    let k = self.srv.open();
    let _ = writeln!(self.log, "op open {k} as {name}");
    self.pump(1).await;
    self.request(k, Req::Connect { version: 1, hb: 0 }).await;
    if self.auth {
      if let Some(m) = &self.srv.modulator {
        m.script.lock().unwrap().auth = AuthS::Success(name.to_string());
      }
      self.request(k, Req::Auth { token: format!("tok-{name}") }).await;
    } else {
      self.request(k, Req::Identify { username: name.to_string() }).await;
    }
    k
  }

  fn close(&mut self, k: usize) {
    let _ = writeln!(self.log, "op close {k}");
    self.srv.close(k);
    self.dead.insert(k);
  }

  fn live_authed(&self) -> Vec<(usize, String)> {
    self.user.iter().filter(|(k, _)| !self.dead.contains(k)).map(|(k, u)| (*k, u.clone())).collect()
  }

  fn random_op(&mut self) -> Option<(usize, Req)> {
    let live = self.live_authed();
    if live.is_empty() {
      return None;
    }
    let (k, u) = live[self.rng.below(live.len() as u64) as usize].clone();
    let chan = full(*self.rng.pick(CHANS));
    let id = self.id();
    let other = format!("{}@localhost", self.rng.pick(USERS));
    let r = match self.rng.below(100) {
      0..=21 => Req::Join { id, chan, ob: None },
      22..=41 => Req::Leave { id, chan, ob: None },
      42..=49 => Req::Leave { id, chan, ob: Some(other) },
      50..=55 => Req::Join { id, chan, ob: Some(other) },
      56..=71 => Req::Broadcast { id, chan, qos: None, payload: format!("p{id}-{u}").into_bytes() },
      72..=83 => Req::Channels { id, page: None, size: None, owner: self.rng.chance(1, 2) },
      84..=93 => Req::Members { id, chan, page: None, size: None },
      _ => Req::GetConfig { id, chan },
    };
    Some((k, r))
  }

  /// reply frames with this id on this connection
  fn replies(&self, k: usize, id: u32) -> Vec<&RFrame> {
    self.inbox.get(&k).map(|v| v.iter().filter(|f| f.msg.correlation_id() == Some(id) && !matches!(f.msg, Message::Ping(_))).collect()).unwrap_or_default()
  }
}

pub struct LatOut {
  pub transcript: String,
  pub failures: Vec<(usize, String)>,
  pub stats: BTreeMap<String, u64>,
}

async fn run_case(case: usize, mut rng: Rng, progress: Arc<AtomicU64>) -> (String, Vec<String>, BTreeMap<String, u64>) {
  let mut cfg = SrvCfg::default();
  cfg.max_channels = 6;
  cfg.max_clients = *rng.pick(&[2u32, 3, 4]);
  cfg.max_subs = *rng.pick(&[1u32, 2, 3]);
  cfg.request_timeout_ms = 5_000;
  cfg.max_inflight = *rng.pick(&[2u32, 4, 100]);
  cfg.modulator = Some(if rng.chance(1, 3) {
    vec![Operation::ForwardEvent, Operation::ForwardBroadcastPayload]
  } else {
    vec![Operation::ForwardEvent]
  });
  // a third of the cases: the modulator authenticates, and users hold two connections
  let auth = rng.chance(1, 3);
  if auth {
    cfg.modulator.as_mut().unwrap().push(Operation::Auth);
  }
  let timeout_ms = cfg.request_timeout_ms;
  let srv = Srv::new(cfg.clone()).await;
  let modu = srv.modulator.clone().unwrap();
  let mut c = Case {
    auth,
    srv,
    rng,
    user: BTreeMap::new(),
    dead: BTreeSet::new(),
    closing: BTreeSet::new(),
    inbox: BTreeMap::new(),
    sent: Vec::new(),
    next_id: 10,
    log: String::new(),
    fails: Vec::new(),
  };
  let mut stats: BTreeMap<String, u64> = BTreeMap::new();
  let _ = writeln!(c.log, "case {case}\n{}", cfg.line());

  // ---- phase 1: a populated server, no latency
  for u in USERS {
    c.open_identify(u).await;
  }
  if auth {
    // second connections (4, 5, 6) of the same users
    for u in USERS {
      if c.rng.chance(2, 3) {
        c.open_identify(u).await;
      }
    }
  }
  for k in 1..=3usize {
    for h in CHANS {
      if c.rng.chance(3, 5) {
        let id = c.id();
        c.request(k, Req::Join { id, chan: full(h), ob: None }).await;
      }
    }
  }

  // ---- phase 2: operations under latency
  modu.set_hold(true);
  let _ = writeln!(c.log, "# modulator calls park from here on");
  let burst = c.rng.range(2, 6);
  let mut reidentified = 0;
  for _ in 0..burst {
    progress.fetch_add(1, Ordering::Relaxed);
    match c.rng.below(10) {
      0 | 1 => {
        let live = c.live_authed();
        if !live.is_empty() {
          let (k, _) = live[c.rng.below(live.len() as u64) as usize].clone();
          c.close(k);
          c.pump(1).await;
          *stats.entry("close".into()).or_insert(0) += 1;
        }
      },
      2 if reidentified < 3 => {
        // a (possibly still being cleaned up) name is taken again and joins at once
        let u = *c.rng.pick(USERS);
        let k = c.open_identify(u).await;
        reidentified += 1;
        *stats.entry("reidentify".into()).or_insert(0) += 1;
        if c.user.contains_key(&k) {
          let id = c.id();
          let chan = full(*c.rng.pick(CHANS));
          c.request(k, Req::Join { id, chan, ob: None }).await;
        }
      },
      _ => {
        if let Some((k, r)) = c.random_op() {
          *stats.entry(r.kind_name().to_string()).or_insert(0) += 1;
          c.request(k, r).await;
        }
      },
    }
  }
  // variant: the server is shut down while requests are suspended in the modulator (C20: every connection is told, closed,
  // and shutdown completes — requests in flight are cancelled, not waited for)
  if c.rng.chance(1, 6) {
    // notifications of departures are let through first (a disconnect clean-up that waits for one is not a request), and so
    // are authentications: AUTH is dispatched inline by the connection loop, which observes nothing while it waits for the
    // modulator — over a real modulator link that wait is bounded by the link's own request timeout, here it would not be
    loop {
      let _ = modu.parked_live();
      // what stays parked is certainly a request task: a broadcast's payload validation, or a JOIN into an existing channel
      let is_request = |d: &String| d.starts_with("payload ") || (d.starts_with("event MEMBER_JOINED") && d.ends_with("owner=false"));
      let Some(i) = modu.parked().iter().position(|d| !is_request(d)) else { break };
      modu.release(i, true);
      c.pump(1).await;
    }
    let in_flight = modu.parked_live();
    modu.set_hold(false);
    // (connections the server has already closed — e.g. for exceeding the in-flight limit — are seen closed first)
    c.pump(1).await;
    c.pump(1).await;
    let open_before: Vec<usize> = c.srv.clients.iter().filter(|(k, e)| e.stream.is_some() && !c.dead.contains(k)).map(|(k, _)| *k).collect();
    let mng = c.srv.conn_mng.clone();
    let h = tokio::task::spawn_local(async move {
      let _ = mng.shutdown().await;
    });
    c.pump(50).await;
    c.pump(50).await;
    let _ = writeln!(c.log, "# shutdown with {in_flight} modulator calls outstanding; open connections {open_before:?}");
    if !h.is_finished() {
      c.fails.push(format!(
        "C20: [shutdown-with-requests-in-flight] ConnManager::shutdown had not completed 100 ms after it was requested ({in_flight} requests were suspended in the modulator; request_timeout is {timeout_ms} ms)"
      ));
    }
    for k in &open_before {
      let mut told = c.inbox.get(k).is_some_and(|v| v.iter().any(|f| matches!(&f.msg, Message::Error(p) if p.reason.as_ref() == "SERVER_SHUTTING_DOWN")));
      let closed = c.srv.clients.get(k).is_some_and(|e| e.eof);
      // a client that pipelined more requests than max_inflight_requests has already been cut off by the in-flight gate (its
      // loop has ended, only its clean-up is still running): it is closed, but no longer told anything
      let unanswered = c.sent.iter().filter(|s| s.conn == *k && c.replies(*k, s.id).is_empty()).count();
      if unanswered > cfg.max_inflight as usize {
        told = true;
      }
      if !told || !closed {
        c.fails.push(format!(
          "C20: [shutdown-with-requests-in-flight] connection {k} was {}told SERVER_SHUTTING_DOWN and {}closed within 100 ms of the shutdown ({in_flight} requests suspended in the modulator)",
          if told { "" } else { "not " },
          if closed { "" } else { "not " }
        ));
      }
    }
    *stats.entry("shutdown".into()).or_insert(0) += 1;
    return (c.log, c.fails, stats);
  }
  // release in random order with random outcomes, more operations in between, sometimes past the request timeout
  let mut rounds = 0;
  let mut let_time_out = c.rng.chance(1, 4);
  while rounds < 40 {
    rounds += 1;
    progress.fetch_add(1, Ordering::Relaxed);
    let parked = modu.parked();
    if parked.is_empty() {
      break;
    }
    match c.rng.below(10) {
      0..=5 => {
        let i = c.rng.below(parked.len() as u64) as usize;
        let ok = !c.rng.chance(1, 5);
        let _ = writeln!(c.log, "release `{}` -> {}", parked[i], if ok { "ok" } else { "error" });
        *stats.entry(if ok { "release-ok" } else { "release-error" }.into()).or_insert(0) += 1;
        modu.release(i, ok);
        c.pump(1).await;
      },
      6 | 7 => {
        if let Some((k, r)) = c.random_op() {
          *stats.entry(r.kind_name().to_string()).or_insert(0) += 1;
          c.request(k, r).await;
        }
      },
      8 if reidentified < 3 => {
        let u = *c.rng.pick(USERS);
        let k = c.open_identify(u).await;
        reidentified += 1;
        *stats.entry("reidentify".into()).or_insert(0) += 1;
        if c.user.contains_key(&k) {
          let id = c.id();
          let chan = full(*c.rng.pick(CHANS));
          c.request(k, Req::Join { id, chan, ob: None }).await;
        }
      },
      _ => {
        if let_time_out {
          let _ = writeln!(c.log, "advance {} ms (past request_timeout) with {} calls parked", timeout_ms + 10, parked.len());
          *stats.entry("timeout-while-parked".into()).or_insert(0) += 1;
          c.pump(timeout_ms + 10).await;
          let_time_out = false;
        } else {
          c.pump(500).await;
        }
      },
    }
  }
  // every request is now given its full request_timeout while the remaining calls stay parked ...
  let still = modu.parked().len();
  let _ = writeln!(c.log, "advance {} ms with {still} calls parked", timeout_ms + 10);
  c.pump(timeout_ms + 10).await;
  // ... then the modulator answers everything that is still parked: a connection that announced its close must now be shut
  modu.set_hold(false);
  let mut guard = 0;
  while !modu.parked().is_empty() && guard < 10_000 {
    modu.release(0, true);
    guard += 1;
  }
  c.pump(50).await;
  for k in c.closing.clone() {
    c.fails.push(format!(
      "C13: [closing-connection-never-closed] connection {k} received a non-recoverable ERROR but its socket is still open after the modulator answered every call"
    ));
  }
  // ---- C13 / C12: answered once, or the connection is closed
  for s in &c.sent {
    let n = c.replies(s.conn, s.id).len();
    let closed = c.dead.contains(&s.conn);
    if n == 0 && !closed {
      c.fails.push(format!(
        "C13: [request-unanswered] {} id={} on connection {} has no answer {} ms after it was sent and the connection is still open",
        s.what, s.id, s.conn, timeout_ms
      ));
      c.fails.push(format!("C12: [request-unanswered] {} id={} on connection {} was never answered and the connection stayed open", s.what, s.id, s.conn));
    }
    // a closing ERROR after the ACK (the request failed or timed out after its reply had been queued) ends the
    // connection and is not a second answer "while the connection stays open"
    let closing_error = closed
      && c.inbox.get(&s.conn).and_then(|v| v.last()).is_some_and(|f| matches!(f.msg, Message::Error(_)) && f.msg.correlation_id() == Some(s.id));
    if n > 1 && !(n == 2 && closing_error) {
      c.fails.push(format!("C12: [answered-twice] {} id={} on connection {} got {n} frames with its id", s.what, s.id, s.conn));
    }
  }
  for (k, frames) in &c.inbox {
    for f in frames {
      if let Some(id) = f.msg.correlation_id() {
        if !matches!(f.msg, Message::Ping(_)) && !c.sent.iter().any(|s| s.conn == *k && s.id == id) {
          c.fails.push(format!("C12: [foreign-id] connection {k} received `{}` with an id it never sent", f.text));
        }
      }
    }
  }
  // ... then the parked calls (those of clean-up tasks, which no request timeout bounds) return
  modu.set_hold(false);
  loop {
    let parked = modu.parked();
    if parked.is_empty() {
      break;
    }
    let _ = writeln!(c.log, "release `{}` -> ok (final)", parked[0]);
    modu.release(0, true);
    c.pump(1).await;
  }
  c.pump(50).await;
  progress.fetch_add(1, Ordering::Relaxed);

  // ---- phase 3: audit at quiescence
  let _ = writeln!(c.log, "# audit");
  let live = c.live_authed();
  let live_users: BTreeSet<String> = live.iter().map(|(_, u)| u.clone()).collect();
  let mut channels_of: BTreeMap<String, BTreeSet<String>> = BTreeMap::new();
  let mut members_of: BTreeMap<String, BTreeSet<String>> = BTreeMap::new();
  let mut members_seen: BTreeSet<String> = BTreeSet::new();
  for (k, u) in &live {
    let id = c.id();
    c.request(*k, Req::Channels { id, page: None, size: None, owner: false }).await;
    let rep = c.replies(*k, id);
    match rep.first().map(|f| &f.msg) {
      Some(Message::ListChannelsAck(p)) => {
        channels_of.insert(u.clone(), p.channels.iter().map(|x| x.to_string()).collect());
      },
      _ => c.fails.push(format!("C13: [audit-unanswered] CHANNELS of {u} (connection {k}) was not answered at quiescence")),
    }
    for h in CHANS {
      let id = c.id();
      c.request(*k, Req::Members { id, chan: full(h), page: None, size: None }).await;
      let rep = c.replies(*k, id);
      if let Some(Message::ListMembersAck(p)) = rep.first().map(|f| &f.msg) {
        let set: BTreeSet<String> = p.members.iter().map(|x| x.to_string()).collect();
        if let Some(prev) = members_of.get(*h) {
          if *prev != set {
            c.fails.push(format!("C05: [views] two members of {h} are shown different member lists: {prev:?} vs {set:?}"));
          }
        }
        if !set.contains(&format!("{u}@localhost")) {
          c.fails.push(format!("C05: [views] {u} may list MEMBERS of {h} but is not in the list {set:?}"));
        }
        members_of.insert(h.to_string(), set);
        members_seen.insert(h.to_string());
      }
    }
  }
  for (u, chans) in &channels_of {
    for h in CHANS {
      let listed = chans.contains(&full(h));
      let is_member = members_of.get(*h).is_some_and(|s| s.contains(&format!("{u}@localhost")));
      if listed && !is_member {
        c.fails.push(format!("C05: [views] CHANNELS of {u} lists {h} but MEMBERS of {h} ({:?}) does not list {u}", members_of.get(*h)));
      }
      if !listed && is_member {
        c.fails.push(format!("C05: [views] MEMBERS of {h} lists {u} but CHANNELS of {u} ({chans:?}) does not list {h}"));
      }
    }
  }
  for (h, set) in &members_of {
    for m in set {
      let u = m.split('@').next().unwrap_or("");
      if !live_users.contains(u) {
        c.fails.push(format!("C05: [ghost-member] MEMBERS of {h} lists {m}, who has no live connection"));
        c.fails.push(format!("C14: [slot-not-released] {m} has no live connection but still occupies a member slot of {h}"));
      }
    }
  }
  // every live session still holds its name: a second IDENTIFY under it must be refused
  for (k, u) in live.iter().filter(|_| !auth) {
    let k2 = c.open_identify(u).await;
    if c.user.contains_key(&k2) {
      c.fails.push(format!(
        "C07: [name-not-exclusive] connection {k} holds the username {u} and is still open, yet connection {k2} was acknowledged the same identity"
      ));
      c.close(k2);
      c.pump(2).await;
    }
  }
  // existence probe + canary by a fresh user
  let z = c.open_identify("zed").await;
  if !c.user.contains_key(&z) {
    c.fails.push("C13: [canary] a new connection could not connect and identify at quiescence".into());
  } else {
    for h in CHANS {
      let id = c.id();
      c.request(z, Req::Members { id, chan: full(h), page: None, size: None }).await;
      let rep = c.replies(z, id);
      let reason = match rep.first().map(|f| &f.msg) {
        Some(Message::Error(p)) => p.reason.to_string(),
        _ => "?".into(),
      };
      let anyone = channels_of.values().any(|s| s.contains(&full(h)));
      if reason == "USER_NOT_IN_CHANNEL" && !anyone {
        c.fails.push(format!("C05: [ghost-channel] channel {h} exists although no live user is a member of it"));
        c.fails.push(format!("C14: [slot-not-released] channel {h} has no live member but still exists and counts towards max_channels"));
      }
      if reason == "CHANNEL_NOT_FOUND" && anyone {
        c.fails.push(format!("C05: [existence] a live user lists {h} but the server says CHANNEL_NOT_FOUND"));
      }
    }
    // C01: one broadcast per channel by a listed member reaches exactly the listed members' connections
    for h in CHANS {
      let Some(set) = members_of.get(*h).cloned() else { continue };
      let Some((pk, pu)) = live.iter().find(|(_, u)| set.contains(&format!("{u}@localhost"))).cloned() else { continue };
      let before: BTreeMap<usize, usize> = c.inbox.iter().map(|(k, v)| (*k, v.len())).collect();
      let id = c.id();
      c.request(pk, Req::Broadcast { id, chan: full(h), qos: None, payload: format!("audit-{h}").into_bytes() }).await;
      if !modu.parked().is_empty() {
        modu.release(0, true);
      }
      c.pump(5).await;
      let acked = c.replies(pk, id).iter().any(|f| matches!(f.msg, Message::BroadcastAck(_)));
      for (k, v) in &c.inbox {
        let new = &v[before.get(k).copied().unwrap_or(0).min(v.len())..];
        let got = new.iter().filter(|f| matches!(&f.msg, Message::Message(p) if p.channel.as_ref() == full(h))).count();
        let ku = c.user.get(k).cloned().unwrap_or_default();
        let should = acked && *k != pk && !c.dead.contains(k) && set.contains(&format!("{ku}@localhost"));
        if got > 0 && !set.contains(&format!("{ku}@localhost")) {
          c.fails.push(format!("C01: [non-member-delivery] connection {k} ({ku:?}) received a MESSAGE of {h} but MEMBERS lists {set:?}"));
        }
        if should && got != 1 {
          c.fails.push(format!("C02: [missing-delivery] connection {k} ({ku}) of member of {h} received {got} copies of an acknowledged broadcast by {pu}"));
        }
      }
    }
    // users whose connections have all ended come back under the same name (new sessions that join nothing): whatever is
    // published from now on must not reach them
    let mut returned: Vec<(usize, String)> = Vec::new();
    for name in USERS {
      if !live_users.contains(*name) {
        let k = c.open_identify(name).await;
        if c.user.contains_key(&k) {
          returned.push((k, name.to_string()));
        }
      }
    }
    // canary: join / broadcast / leave
    for h in CHANS {
      let id = c.id();
      c.request(z, Req::Join { id, chan: full(h), ob: None }).await;
      let (answered, acked) = {
        let rep = c.replies(z, id);
        (!rep.is_empty(), rep.iter().any(|f| matches!(f.msg, Message::JoinChannelAck(_))))
      };
      if !answered {
        c.fails.push(format!("C13: [canary] JOIN {h} by a new user was not answered at quiescence"));
      }
      if acked {
        let before: BTreeMap<usize, usize> = c.inbox.iter().map(|(k, v)| (*k, v.len())).collect();
        let id = c.id();
        c.request(z, Req::Broadcast { id, chan: full(h), qos: None, payload: format!("canary-{h}").into_bytes() }).await;
        if !modu.parked().is_empty() {
          modu.release(0, true);
        }
        c.pump(5).await;
        for (k, name) in &returned {
          let v = c.inbox.get(k).cloned().unwrap_or_default();
          let new = &v[before.get(k).copied().unwrap_or(0).min(v.len())..];
          if new.iter().any(|f| matches!(&f.msg, Message::Message(p) if p.channel.as_ref() == full(h))) {
            c.fails.push(format!(
              "C01: [departed-user-delivery] {name} reconnected (connection {k}) after all its connections had closed and joined nothing, yet received a MESSAGE of {h}"
            ));
          }
        }
        let id = c.id();
        c.request(z, Req::Leave { id, chan: full(h), ob: None }).await;
        if c.replies(z, id).is_empty() {
          c.fails.push(format!("C13: [canary] LEAVE {h} by the canary was not answered at quiescence"));
        }
      }
    }
  }
  let _ = members_seen;
  (c.log, c.fails, stats)
}

pub async fn run_suite(seed: u64, cases: usize, only: Option<usize>, out_path: String) -> LatOut {
  let progress = Arc::new(AtomicU64::new(0));
  // wall-clock watchdog: a worker thread blocked on a synchronous lock stops virtual time and everything else
  {
    let p = progress.clone();
    let path = out_path.clone();
    std::thread::spawn(move || {
      let mut last = p.load(Ordering::Relaxed);
      let mut idle = 0;
      loop {
        std::thread::sleep(std::time::Duration::from_secs(1));
        let now = p.load(Ordering::Relaxed);
        if now == u64::MAX {
          return;
        }
        if now == last {
          idle += 1;
        } else {
          idle = 0;
          last = now;
        }
        if idle >= 12 {
          use std::io::Write;
          if let Ok(mut f) = std::fs::OpenOptions::new().create(true).append(true).open(&path) {
            let case = now >> 32;
            let _ = writeln!(f, "oracle-failure case={case} C13: [worker-blocked] the server's worker thread made no progress for 12 s of wall-clock time (a handler blocks the thread: synchronous lock held across a suspension, or a wedge)");
            let _ = writeln!(f, "stats {{\"suite\":\"lat\",\"seed\":0,\"cases\":0,\"aborted\":true}}");
          }
          std::process::exit(0);
        }
      }
    });
  }
  let mut master = Rng::new(seed ^ 0x1a7);
  let mut transcript = String::new();
  let mut failures = Vec::new();
  let mut stats: BTreeMap<String, u64> = BTreeMap::new();
  for case in 0..cases {
    let crng = master.fork();
    if only.is_some_and(|o| o != case) {
      continue;
    }
    progress.store((case as u64) << 32, Ordering::Relaxed);
    let panics_before = crate::PANICS.load(Ordering::SeqCst);
    let (log, mut fails, st) = run_case(case, crng, progress.clone()).await;
    if crate::PANICS.load(Ordering::SeqCst) > panics_before {
      for tag in ["C13", "C12"] {
        fails.push(format!("{tag}: [server-panic] a task of the server panicked during this history (the real server's panic hook ends the process)"));
      }
    }
    if only.is_some() || !fails.is_empty() {
      transcript.push_str(&log);
    }
    for f in fails {
      failures.push((case, f));
    }
    for (k, v) in st {
      *stats.entry(k).or_insert(0) += v;
    }
  }
  // directed regressions (kept corpus): histories that once failed run on every invocation, after the random cases
  if only.is_none() {
    for (i, variant) in ["join", "leave"].iter().enumerate() {
      let case = 1_000_000 + i;
      progress.store((case as u64) << 32, Ordering::Relaxed);
      let (log, fails) = probe_stale_channel(variant).await;
      if !fails.is_empty() {
        transcript.push_str(&log);
      }
      for f in fails {
        failures.push((case, format!("{f} (directed history `stale-channel-{variant}`: `nvh probe_stale --variant {variant}`)")));
      }
      *stats.entry("directed".into()).or_insert(0) += 1;
    }
    {
      let case = 1_000_020;
      progress.store((case as u64) << 32, Ordering::Relaxed);
      let (log, fails) = probe_reuse_during_cleanup().await;
      if !fails.is_empty() {
        transcript.push_str(&log);
      }
      for f in fails {
        failures.push((case, format!("{f} (directed history `reuse-during-cleanup`: `nvh probe_reuse`)")));
      }
      *stats.entry("directed".into()).or_insert(0) += 1;
    }
    {
      let case = 1_000_021;
      progress.store((case as u64) << 32, Ordering::Relaxed);
      let (log, fails) = probe_reauth_during_cleanup().await;
      if !fails.is_empty() {
        transcript.push_str(&log);
      }
      for f in fails {
        failures.push((case, format!("{f} (directed history `reauth-during-cleanup`)")));
      }
      *stats.entry("directed".into()).or_insert(0) += 1;
    }
    for (i, variant) in ["oversize", "write"].iter().enumerate() {
      let case = 1_000_010 + i;
      progress.store((case as u64) << 32, Ordering::Relaxed);
      let (log, fails) = probe_failed_loop(variant).await;
      if !fails.is_empty() {
        transcript.push_str(&log);
      }
      for f in fails {
        failures.push((case, format!("{f} (directed history `failed-loop-{variant}`: `nvh probe_failed_loop --variant {variant}`)")));
      }
      *stats.entry("directed".into()).or_insert(0) += 1;
    }
  }
  progress.store(u64::MAX, Ordering::Relaxed);
  LatOut { transcript, failures, stats }
}

/// Directed probe (DESIGN D31): a JOIN that waited for the lock of a channel object which was meanwhile removed from the map,
/// while a third JOIN has created a *new* channel under the same name.  Returns the log and the failures found.
pub async fn probe_stale_channel(variant: &str) -> (String, Vec<String>) {
  let mut cfg = SrvCfg::default();
  cfg.modulator = Some(vec![Operation::ForwardEvent]);
  cfg.request_timeout_ms = 60_000;
  let srv = Srv::new(cfg.clone()).await;
  let modu = srv.modulator.clone().unwrap();
  let mut c = Case {
    auth: false,
    srv,
    rng: Rng::new(1),
    user: BTreeMap::new(),
    dead: BTreeSet::new(),
    closing: BTreeSet::new(),
    inbox: BTreeMap::new(),
    sent: Vec::new(),
    next_id: 10,
    log: String::new(),
    fails: Vec::new(),
  };
  let b = c.open_identify("bob").await;
  let cc = c.open_identify("carol").await;
  let d = c.open_identify("dave").await;
  let chan = full("c1");
  if variant == "leave" {
    // bob is the only member and leaves; the LEAVE is suspended in the modulator
    let id = c.id();
    c.request(b, Req::Join { id, chan: chan.clone(), ob: None }).await;
  }
  modu.set_hold(true);
  let id_b = c.id();
  if variant == "leave" {
    c.request(b, Req::Leave { id: id_b, chan: chan.clone(), ob: None }).await;
  } else {
    // bob's creating JOIN is suspended in the modulator (member inserted, lock held)
    c.request(b, Req::Join { id: id_b, chan: chan.clone(), ob: None }).await;
  }
  let _ = writeln!(c.log, "parked: {:?}", modu.parked());
  // carol's JOIN finds the channel and waits for its lock
  let id_c = c.id();
  c.request(cc, Req::Join { id: id_c, chan: chan.clone(), ob: None }).await;
  // dave's JOIN is written but not yet run; then bob's call returns (failure for the join variant = roll-back, success for the
  // leave variant = the last member leaves): either way the channel object is removed from the map
  let id_d = c.id();
  let w = Req::Join { id: id_d, chan: chan.clone(), ob: None }.wire().unwrap();
  modu.set_hold(false);
  c.srv.send(d, &w).await;
  let _ = writeln!(c.log, "op {d} join {id_d} (written, not yet run)");
  modu.release(0, variant == "leave");
  c.pump(5).await;
  // release anything still parked
  for _ in 0..10 {
    if modu.parked().is_empty() {
      break;
    }
    modu.release(0, true);
    c.pump(2).await;
  }
  c.pump(20).await;
  // audit: CHANNELS vs MEMBERS for carol and dave
  let mut views: BTreeMap<String, (bool, Option<BTreeSet<String>>)> = BTreeMap::new();
  for (k, u) in [(cc, "carol"), (d, "dave")] {
    if c.dead.contains(&k) {
      continue;
    }
    let id = c.id();
    c.request(k, Req::Channels { id, page: None, size: None, owner: false }).await;
    let listed = match c.replies(k, id).first().map(|f| &f.msg) {
      Some(Message::ListChannelsAck(p)) => p.channels.iter().any(|x| x.to_string() == chan),
      _ => false,
    };
    let id = c.id();
    c.request(k, Req::Members { id, chan: chan.clone(), page: None, size: None }).await;
    let members = match c.replies(k, id).first().map(|f| &f.msg) {
      Some(Message::ListMembersAck(p)) => Some(p.members.iter().map(|x| x.to_string()).collect::<BTreeSet<String>>()),
      _ => None,
    };
    views.insert(u.to_string(), (listed, members));
  }
  let _ = writeln!(c.log, "views: {views:?}");
  let joined = |k: usize, id: u32| c.replies(k, id).iter().any(|f| matches!(f.msg, Message::JoinChannelAck(_)));
  let (jc, jd) = (joined(cc, id_c), joined(d, id_d));
  let _ = writeln!(c.log, "carol JOIN_ACK={jc} dave JOIN_ACK={jd}");
  let mut fails = Vec::new();
  for (u, (listed, members)) in &views {
    let me = format!("{u}@localhost");
    let is_member = members.as_ref().is_some_and(|m| m.contains(&me));
    if *listed && !is_member {
      fails.push(format!("C05: [views] CHANNELS of {u} lists c1 but MEMBERS of c1 ({members:?}) does not list {u}"));
    }
    if !*listed && is_member {
      fails.push(format!("C05: [views] MEMBERS of c1 lists {u} but CHANNELS of {u} does not list c1"));
    }
  }
  if jc && jd {
    // both joins were acknowledged: they must see each other
    let mc = views.get("carol").and_then(|v| v.1.clone());
    let md = views.get("dave").and_then(|v| v.1.clone());
    if mc != md {
      fails.push(format!("C05: [views] carol and dave both joined c1 but are shown different member lists: {mc:?} vs {md:?}"));
    }
  }
  (c.log, fails)
}

// ------------------------------------------------------------------------------------------------
// Suite `micro` (C05): correspondence between `Model/Micro.lean` and the real server at suspension-point granularity.
// Every modulator call parks; the harness decides when each returns and with what, which connections close, and writes the
// same schedule in the model's labels (`mj` = a step whose effect is observed with the next compared step, `mi` = compared).
// Schedules are restricted to those whose order the harness can observe or force: at most one task waits for a channel's lock,
// a connection closes only when no other connection's task holds a lock, and a disconnect clean-up is run to its end at once.

#[derive(Clone, Copy, PartialEq, Debug)]
enum MStat {
  Parked,
  Waiting,
  Done,
}

struct MTask {
  conn: usize,
  /// user index (1..=3) and whether the task is a JOIN
  u: usize,
  join: bool,
  n: usize,
  id: u32,
  stat: MStat,
}

struct Micro {
  c: Case,
  tasks: Vec<MTask>,
  /// user index (1..=3) -> live connection
  conn_of: BTreeMap<usize, usize>,
  t: String,
}

const MUSERS: &[&str] = &["alice", "bob", "carol"];

impl Micro {
  fn holder(&self, n: usize) -> Option<usize> {
    self.tasks.iter().position(|t| t.n == n && t.stat == MStat::Parked)
  }
  fn waiter(&self, n: usize) -> Option<usize> {
    self.tasks.iter().position(|t| t.n == n && t.stat == MStat::Waiting)
  }
  fn pending_of_conn(&self, k: usize) -> Option<usize> {
    self.tasks.iter().position(|t| t.conn == k && t.stat != MStat::Done)
  }
  fn status(&self) -> String {
    let items: Vec<String> = self
      .tasks
      .iter()
      .enumerate()
      .filter(|(_, t)| t.stat != MStat::Done)
      .map(|(i, t)| format!("{i}:{}", if t.stat == MStat::Parked { "P" } else { "W" }))
      .collect();
    format!("st {}", items.join(","))
  }
  fn parked_on(&self, modu: &ScriptedModulator, n: usize) -> Option<(usize, String)> {
    // (calls whose handler was dropped — a cancelled request — are forgotten first)
    let _ = modu.parked_live();
    let pat = format!("!c{}@localhost", n + 1);
    modu.parked().into_iter().enumerate().find(|(_, d)| d.contains(&pat))
  }
  /// after the notification of LEAVE task `ti` on channel `n` returned: is the call now parked on `n` the hand-over
  /// announcement of that same task (rather than the notification of the waiter that got the lock)?
  fn is_handover(&self, modu: &ScriptedModulator, ti: usize, n: usize) -> bool {
    if self.tasks[ti].join {
      return false;
    }
    let Some((_, d)) = self.parked_on(modu, n) else { return false };
    if !d.starts_with("event MEMBER_JOINED") {
      return false;
    }
    // a hand-over is announced with owner=true; a JOIN that waited for the lock of an existing channel never is
    d.ends_with("owner=true")
  }
  /// writes a group of labels: all but the last as `mj`, the last as `mi` with the implementation's task statuses
  fn emit(&mut self, labels: &[String]) {
    for (i, l) in labels.iter().enumerate() {
      if i + 1 == labels.len() {
        let _ = writeln!(self.t, "mi {l}\nimpl {}", self.status());
      } else {
        let _ = writeln!(self.t, "mj {l}");
      }
    }
  }
  /// the status of task `ti` after the server has run: parked on its channel, answered, or waiting for the lock
  fn observe(&mut self, modu: &ScriptedModulator, ti: usize, parked_before: usize) {
    let (n, k, id) = (self.tasks[ti].n, self.tasks[ti].conn, self.tasks[ti].id);
    let parked_now = modu.parked().len();
    let on_chan = self.parked_on(modu, n).is_some() && self.holder(n).is_none_or(|h| h == ti);
    let answered = !self.c.replies(k, id).is_empty();
    self.tasks[ti].stat = if on_chan && (parked_now > parked_before || self.tasks[ti].stat == MStat::Parked) {
      MStat::Parked
    } else if answered || self.c.dead.contains(&k) {
      MStat::Done
    } else {
      MStat::Waiting
    };
  }
  /// after the lock of channel `n` was released: its waiter (at most one) runs
  async fn run_waiter(&mut self, modu: &ScriptedModulator, n: usize, labels: &mut Vec<String>) {
    if let Some(w) = self.waiter(n) {
      let before = modu.parked().len().saturating_sub(1);
      labels.push(format!("run {w}"));
      // it has already run inside the server; classify it
      self.tasks[w].stat = MStat::Done;
      self.observe(modu, w, before);
      if self.tasks[w].stat == MStat::Waiting {
        // nobody else can hold the lock: it must have got it
        self.tasks[w].stat = MStat::Done;
      }
    }
  }
  /// the last connection of user `u` is gone: `leave_all_channels` runs; each of its LEAVEs parks and is released at once
  async fn run_cleanup(&mut self, modu: &ScriptedModulator, u: usize, labels: &mut Vec<String>) {
    labels.push(format!("cleanup {u}"));
    for _ in 0..4 {
      self.c.pump(1).await;
      let _ = modu.parked_live();
      let pat_user = format!(" {}@localhost ", MUSERS[u - 1]);
      let found = modu.parked().into_iter().enumerate().find(|(_, d)| d.starts_with("event MEMBER_LEFT") && d.contains(&pat_user));
      let Some((pi, desc)) = found else { break };
      let n = if desc.contains("!c1@") { 0 } else { 1 };
      let ti = self.tasks.len();
      self.tasks.push(MTask { conn: 0, u, join: false, n, id: 0, stat: MStat::Parked });
      labels.push(format!("next {u} {n} {ti}"));
      labels.push(format!("run {ti}"));
      let ok = self.c.rng.chance(3, 4);
      modu.release(pi, ok);
      self.c.pump(1).await;
      // a hand-over announcement may follow (the lock is still held)
      let pat = format!("!c{}@localhost", n + 1);
      if let Some((hi, _)) = modu.parked().into_iter().enumerate().find(|(_, d)| d.starts_with("event MEMBER_JOINED") && d.contains(&pat)) {
        labels.push(format!("run {ti} {} owner", if ok { "ok" } else { "fail" }));
        let ok2 = self.c.rng.chance(3, 4);
        modu.release(hi, ok2);
        self.c.pump(1).await;
        labels.push(format!("run {ti} {}", if ok2 { "ok" } else { "fail" }));
      } else {
        labels.push(format!("run {ti} {}", if ok { "ok" } else { "fail" }));
      }
      self.tasks[ti].stat = MStat::Done;
    }
  }
}

pub async fn run_micro_suite(seed: u64, cases: usize) -> String {
  let mut master = Rng::new(seed ^ 0x31c0);
  let mut out = String::new();
  let mut stats: BTreeMap<String, u64> = BTreeMap::new();
  for case in 0..cases {
    let rng = master.fork();
    let mut cfg = SrvCfg::default();
    cfg.max_channels = 100;
    cfg.max_clients = 100;
    cfg.max_subs = 100;
    cfg.request_timeout_ms = 3_600_000;
    cfg.modulator = Some(vec![Operation::ForwardEvent]);
    let srv = Srv::new(cfg.clone()).await;
    let modu = srv.modulator.clone().unwrap();
    let c = Case {
      auth: false,
      srv,
      rng,
      user: BTreeMap::new(),
      dead: BTreeSet::new(),
      closing: BTreeSet::new(),
      inbox: BTreeMap::new(),
      sent: Vec::new(),
      next_id: 10,
      log: String::new(),
      fails: Vec::new(),
    };
    let mut m = Micro { c, tasks: Vec::new(), conn_of: BTreeMap::new(), t: String::new() };
    let _ = writeln!(m.t, "case {case}");
    for (i, u) in MUSERS.iter().enumerate() {
      let k = m.c.open_identify(u).await;
      m.conn_of.insert(i + 1, k);
    }
    modu.set_hold(true);
    let mut in_handover: BTreeSet<usize> = BTreeSet::new();
    let steps = m.c.rng.range(8, 22);
    for _ in 0..steps {
      let choice = m.c.rng.below(100);
      let live: Vec<(usize, usize)> = m.conn_of.iter().map(|(u, k)| (*u, *k)).filter(|(_, k)| !m.c.dead.contains(k)).collect();
      if choice < 45 {
        // a request by a user whose connection has nothing pending
        let free: Vec<(usize, usize)> = live.iter().copied().filter(|(_, k)| m.pending_of_conn(*k).is_none()).collect();
        if free.is_empty() {
          continue;
        }
        let (u, k) = free[m.c.rng.below(free.len() as u64) as usize];
        let n = m.c.rng.below(2) as usize;
        if m.holder(n).is_some() && m.waiter(n).is_some() {
          continue;
        }
        let join = m.c.rng.chance(3, 5);
        let id = m.c.id();
        let ti = m.tasks.len();
        let before = modu.parked().len();
        let chan = full(CHANS[n]);
        m.tasks.push(MTask { conn: k, u, join, n, id, stat: MStat::Waiting });
        if join {
          m.c.request(k, Req::Join { id, chan, ob: None }).await;
        } else {
          m.c.request(k, Req::Leave { id, chan, ob: None }).await;
        }
        m.observe(&modu, ti, before);
        let labels = vec![format!("spawn {ti} {} {u} {n}", if join { "join" } else { "leave" }), format!("run {ti}")];
        m.emit(&labels);
        *stats.entry(if join { "join" } else { "leave" }.into()).or_insert(0) += 1;
      } else if choice < 52 {
        // a third request arrives for a channel whose lock is held and waited for, just before the holder's notification
        // returns: it is first polled after the holder has finished and before the waiter runs (the order the runtime
        // gives on one worker: the connection task spawns it before the holder's wake-up is processed)
        let Some(n) = (0..2usize).find(|n| m.holder(*n).is_some() && m.waiter(*n).is_some()) else { continue };
        let ti = m.holder(n).unwrap();
        let w = m.waiter(n).unwrap();
        if in_handover.contains(&ti) || m.tasks[ti].conn == 0 {
          continue;
        }
        let free: Vec<(usize, usize)> = live.iter().copied().filter(|(_, k)| m.pending_of_conn(*k).is_none()).collect();
        let Some(&(u, k)) = free.first() else { continue };
        // only when nothing else is in flight (the outcome for the holder is `ok`: no connection is closed by it)
        if (0..2).any(|x| x != n && (m.holder(x).is_some() || m.waiter(x).is_some())) {
          continue;
        }
        let Some((pi, _)) = m.parked_on(&modu, n) else { continue };
        let id = m.c.id();
        let di = m.tasks.len();
        m.tasks.push(MTask { conn: k, u, join: true, n, id, stat: MStat::Waiting });
        let wire = Req::Join { id, chan: full(CHANS[n]), ob: None }.wire().unwrap();
        m.c.srv.send(k, &wire).await;
        m.c.sent.push(Sent { conn: k, id, what: "join".into() });
        modu.release(pi, true);
        m.c.pump(1).await;
        let mut labels = Vec::new();
        let handover = m.is_handover(&modu, ti, n);
        if handover {
          // the holder went on to its hand-over announcement and still has the lock: release that as well
          in_handover.insert(ti);
          if let Some((hi, _)) = m.parked_on(&modu, n) {
            modu.release(hi, true);
            m.c.pump(1).await;
          }
        }
        m.tasks[ti].stat = MStat::Done;
        // classify the two from what can be seen: a reply = done; otherwise the one whose notification is parked holds the lock
        for &t in &[w, di] {
          let (kk, idd) = (m.tasks[t].conn, m.tasks[t].id);
          let answered = (kk != 0 && !m.c.replies(kk, idd).is_empty()) || m.c.dead.contains(&kk);
          m.tasks[t].stat = if answered { MStat::Done } else { MStat::Waiting };
        }
        if let Some((_, d)) = m.parked_on(&modu, n) {
          for &t in &[w, di] {
            if m.tasks[t].stat == MStat::Waiting {
              let name = format!(" {}@localhost ", MUSERS[m.tasks[t].u - 1]);
              let kind = if m.tasks[t].join { "event MEMBER_JOINED" } else { "event MEMBER_LEFT" };
              if d.starts_with(kind) && d.contains(&name) {
                m.tasks[t].stat = MStat::Parked;
              }
            }
          }
        }
        // which of the two the runtime served first is the environment's choice (async-lock lets a newcomer barge unless the
        // waiter has been passed over before): read it off the outcome — whoever still waits came second
        let d_first = m.tasks[di].stat != MStat::Waiting && !(m.tasks[w].stat == MStat::Done && m.tasks[di].stat == MStat::Parked);
        if handover {
          labels.push(format!("run {ti} ok owner"));
          labels.push(format!("spawn {di} join {u} {n}"));
          labels.push(format!("run {di}"));
          labels.push(format!("run {ti} ok"));
        } else {
          labels.push(format!("run {ti} ok"));
          labels.push(format!("spawn {di} join {u} {n}"));
        }
        if d_first {
          labels.push(format!("run {di}"));
          labels.push(format!("run {w}"));
        } else {
          labels.push(format!("run {w}"));
          labels.push(format!("run {di}"));
        }
        m.emit(&labels);
        *stats.entry("arrive-before-waiter".into()).or_insert(0) += 1;
      } else if choice < 85 {
        // a parked notification returns
        let held: Vec<usize> = (0..2).filter(|n| m.holder(*n).is_some()).collect();
        if held.is_empty() {
          continue;
        }
        let n = held[m.c.rng.below(held.len() as u64) as usize];
        let ti = m.holder(n).unwrap();
        let k = m.tasks[ti].conn;
        // a failing notification ends the requester's connection and starts its clean-up: only when nothing else is in flight
        let alone = (0..2).all(|x| m.holder(x).is_none_or(|h| h == ti)) && m.waiter(n).is_none() && m.waiter(1 - n).is_none();
        let ok = !alone || m.c.rng.chance(2, 3);
        let Some((pi, _)) = m.parked_on(&modu, n) else { continue };
        let before = modu.parked().len() - 1;
        modu.release(pi, ok);
        m.c.pump(1).await;
        let mut labels = Vec::new();
        // still parked on the same channel = the hand-over announcement of a LEAVE by the owner
        let handover = ok && !m.tasks[ti].join && !in_handover.contains(&ti) && m.is_handover(&modu, ti, n);
        if handover {
          labels.push(format!("run {ti} ok owner"));
          in_handover.insert(ti);
          let _ = before;
        } else {
          labels.push(format!("run {ti} {}", if ok { "ok" } else { "fail" }));
          m.tasks[ti].stat = MStat::Done;
          m.run_waiter(&modu, n, &mut labels).await;
        }
        // a failed request closes its connection: the user's clean-up follows
        if m.c.dead.contains(&k) {
          if let Some((u, _)) = m.conn_of.iter().find(|(_, kk)| **kk == k).map(|(u, kk)| (*u, *kk)) {
            m.conn_of.remove(&u);
            m.run_cleanup(&modu, u, &mut labels).await;
          }
        }
        m.emit(&labels);
        *stats.entry(if ok { "release-ok" } else { "release-fail" }.into()).or_insert(0) += 1;
      } else if choice < 95 {
        // a client closes its connection (only when no other connection's task holds a lock)
        if live.is_empty() {
          continue;
        }
        let (u, k) = live[m.c.rng.below(live.len() as u64) as usize];
        let own = m.pending_of_conn(k);
        let foreign = (0..2).any(|n| m.holder(n).is_some_and(|h| Some(h) != own));
        if foreign {
          continue;
        }
        if let Some(ti) = own {
          if m.tasks[ti].stat == MStat::Parked && m.waiter(m.tasks[ti].n).is_some() {
            continue;
          }
        }
        let mut labels = Vec::new();
        m.c.close(k);
        m.c.pump(1).await;
        if let Some(ti) = own {
          labels.push(format!("run {ti} cancel"));
          m.tasks[ti].stat = MStat::Done;
        }
        m.conn_of.remove(&u);
        m.run_cleanup(&modu, u, &mut labels).await;
        m.emit(&labels);
        *stats.entry("close".into()).or_insert(0) += 1;
      } else {
        // a user without a connection comes back
        let gone: Vec<usize> = (1..=3).filter(|u| !m.conn_of.contains_key(u)).collect();
        if let Some(u) = gone.first().copied() {
          modu.set_hold(false);
          let k = m.c.open_identify(MUSERS[u - 1]).await;
          modu.set_hold(true);
          if m.c.user.contains_key(&k) {
            m.conn_of.insert(u, k);
          }
          *stats.entry("return".into()).or_insert(0) += 1;
        }
      }
    }
    // let everything finish: release what is parked (acknowledged), waiters follow
    for _ in 0..20 {
      let held: Vec<usize> = (0..2).filter(|n| m.holder(*n).is_some()).collect();
      if held.is_empty() {
        break;
      }
      let n = held[0];
      let ti = m.holder(n).unwrap();
      let k = m.tasks[ti].conn;
      let Some((pi, _)) = m.parked_on(&modu, n) else { break };
      modu.release(pi, true);
      m.c.pump(1).await;
      let mut labels = Vec::new();
      let _ = k;
      let handover = !in_handover.contains(&ti) && m.is_handover(&modu, ti, n);
      if handover {
        in_handover.insert(ti);
        labels.push(format!("run {ti} ok owner"));
      } else {
        labels.push(format!("run {ti} ok"));
        m.tasks[ti].stat = MStat::Done;
        m.run_waiter(&modu, n, &mut labels).await;
      }
      m.emit(&labels);
    }
    modu.set_hold(false);
    m.c.pump(5).await;
    // the two listings, as the live users see them
    let live: Vec<(usize, usize)> = m.conn_of.iter().map(|(u, k)| (*u, *k)).filter(|(_, k)| !m.c.dead.contains(k)).collect();
    let mut idx: Vec<String> = Vec::new();
    let mut mem: BTreeMap<usize, Option<Vec<usize>>> = BTreeMap::new();
    let z = m.c.open_identify("zed").await;
    for n in 0..2 {
      // existence through a stranger, the list through a member
      let id = m.c.id();
      m.c.request(z, Req::Members { id, chan: full(CHANS[n]), page: None, size: None }).await;
      let exists = !m.c.replies(z, id).iter().any(|f| matches!(&f.msg, Message::Error(p) if p.reason.as_ref() == "CHANNEL_NOT_FOUND"));
      mem.insert(n, if exists { Some(Vec::new()) } else { None });
    }
    for (u, k) in &live {
      let id = m.c.id();
      m.c.request(*k, Req::Channels { id, page: None, size: None, owner: false }).await;
      let mut chans: Vec<usize> = Vec::new();
      if let Some(Message::ListChannelsAck(p)) = m.c.replies(*k, id).first().map(|f| &f.msg) {
        for ch in &p.channels {
          chans.push(if ch.to_string().contains("!c1@") { 0 } else { 1 });
        }
      }
      chans.sort();
      idx.push(format!("{u}={}", chans.iter().map(|x| x.to_string()).collect::<Vec<_>>().join(",")));
      for n in 0..2 {
        let id = m.c.id();
        m.c.request(*k, Req::Members { id, chan: full(CHANS[n]), page: None, size: None }).await;
        if let Some(Message::ListMembersAck(p)) = m.c.replies(*k, id).first().map(|f| &f.msg) {
          let mut us: Vec<usize> = p
            .members
            .iter()
            .filter_map(|x| MUSERS.iter().position(|mu| x.to_string().starts_with(&format!("{mu}@"))).map(|i| i + 1))
            .collect();
          us.sort();
          mem.insert(n, Some(us));
        }
      }
    }
    // a channel that exists but that no live user can list (only departed users in it) is reported as `?`
    let mems: Vec<String> = mem
      .iter()
      .map(|(n, v)| match v {
        None => format!("{n}=-"),
        Some(us) if us.is_empty() => format!("{n}=?"),
        Some(us) => format!("{n}={}", us.iter().map(|x| x.to_string()).collect::<Vec<_>>().join(",")),
      })
      .collect();
    // the statement of `C05_micro_members_are_live_at_quiescence`, evaluated on the implementation: nothing is in progress any
    // more, so everybody MEMBERS lists has a live connection
    for (n, v) in &mem {
      if let Some(us) = v {
        for u in us {
          if !live.iter().any(|(lu, _)| lu == u) {
            let _ = writeln!(
              m.t,
              "oracle-failure case={case} C05: [ghost-member] at quiescence MEMBERS of {} lists {}@localhost, who has no live connection",
              CHANS[*n],
              MUSERS[*u - 1]
            );
          }
        }
      }
    }
    let live_s = live.iter().map(|(u, _)| u.to_string()).collect::<Vec<_>>().join(",");
    let _ = writeln!(m.t, "mi views {} 0,1", if live_s.is_empty() { "-".into() } else { live_s });
    let _ = writeln!(m.t, "impl views idx:{} mem:{}", idx.join(";"), mems.join(";"));
    if std::env::var("MICRO_TRACE").is_ok() {
      eprintln!("==== case {case}\n{}", m.c.log);
    }
    out.push_str(&m.t);
  }
  let _ = writeln!(out, "stats {{\"suite\":\"micro\",\"seed\":{seed},\"cases\":{cases},\"ops\":{}}}", crate::js_map(&stats));
  out
}

/// Directed probe: a connection whose loop ends with an *error* — an unsolicited frame that does not fit `max_message_size`
/// (`oversize`), or a write to a peer that has gone away while frames were queued for it behind a full pipe (`write`) — must be
/// cleaned up like any other: the user leaves its channels, the name is free again, and a session that comes back under the
/// name receives nothing of the old channel.
pub async fn probe_failed_loop(variant: &str) -> (String, Vec<String>) {
  let long = |c: char| -> String { std::iter::repeat(c).take(210).collect() };
  let mut cfg = SrvCfg::default();
  cfg.request_timeout_ms = 60_000;
  let (ua, ub, chan) = if variant == "oversize" {
    // everything the 210-character user sends and is sent fits into 256 bytes; a MESSAGE published by it (`from=` that name) does
    // not: the receiver's connection loop ends with a serialization error (events about the short-named receiver fit: no cascade)
    cfg.max_message = 256;
    ("alice".to_string(), long('b'), full("c1"))
  } else {
    ("alice".to_string(), "bob".to_string(), full("c1"))
  };
  let srv = Srv::new(cfg.clone()).await;
  let mut c = Case {
    auth: false,
    srv,
    rng: Rng::new(1),
    user: BTreeMap::new(),
    dead: BTreeSet::new(),
    closing: BTreeSet::new(),
    inbox: BTreeMap::new(),
    sent: Vec::new(),
    next_id: 10,
    log: String::new(),
    fails: Vec::new(),
  };
  // A behind a small pipe in the write variant
  let a = if variant == "write" { c.srv.open_cap(64) } else { c.srv.open() };
  c.pump(1).await;
  c.request(a, Req::Connect { version: 1, hb: 0 }).await;
  c.request(a, Req::Identify { username: ua.clone() }).await;
  let b = c.open_identify(&ub).await;
  if variant == "oversize" {
    let id = c.id();
    c.request(b, Req::Join { id, chan: chan.clone(), ob: None }).await;
    let id = c.id();
    c.request(a, Req::Join { id, chan: chan.clone(), ob: None }).await;
    let id = c.id();
    c.request(b, Req::Broadcast { id, chan: chan.clone(), qos: None, payload: b"first".to_vec() }).await;
  } else {
    let id = c.id();
    c.request(a, Req::Join { id, chan: chan.clone(), ob: None }).await;
    let id = c.id();
    c.request(b, Req::Join { id, chan: chan.clone(), ob: None }).await;
  }
  if variant == "write" {
    // B floods the channel; A does not read: its writer blocks on the full pipe; then A's socket goes away
    for _ in 0..40 {
      let id = c.id();
      let w = Req::Broadcast { id, chan: chan.clone(), qos: None, payload: vec![b'x'; 200] }.wire().unwrap();
      c.srv.send(b, &w).await;
    }
    c.srv.settle(2).await;
    c.close(a);
  }
  // (oversize: B's broadcast has produced a MESSAGE for A that cannot be serialized: A's connection loop ends with that error)
  c.pump(20).await;
  c.pump(20).await;
  let mut fails = Vec::new();
  // MEMBERS as B sees it
  let id = c.id();
  c.request(b, Req::Members { id, chan: chan.clone(), page: None, size: None }).await;
  let members: Vec<String> = match c.replies(b, id).first().map(|f| &f.msg) {
    Some(Message::ListMembersAck(p)) => p.members.iter().map(|x| x.to_string()).collect(),
    _ => Vec::new(),
  };
  let _ = writeln!(c.log, "members as seen by B: {members:?}; A dead={}", c.dead.contains(&a));
  let a_nid = format!("{ua}@localhost");
  // (with the long name the MEMBERS reply itself may not fit; then the announcement is the evidence)
  let told = c.inbox.get(&b).is_some_and(|v| {
    v.iter().any(|f| matches!(&f.msg, Message::Event(p) if p.kind.as_ref() == "MEMBER_LEFT" && p.nid.as_ref().map(|n| n.to_string()) == Some(a_nid.clone())))
  });
  if !told && c.dead.contains(&a) {
    for tag in ["C05", "C18"] {
      fails.push(format!(
        "{tag}: [failed-loop-no-cleanup] the connection of {} ended with a connection-loop error ({variant}) but the remaining member was never told MEMBER_LEFT",
        &ua[..5.min(ua.len())]
      ));
    }
  }
  if members.contains(&a_nid) {
    for tag in ["C05", "C01"] {
      fails.push(format!(
        "{tag}: [failed-loop-no-cleanup] the connection of {} ended with a connection-loop error ({variant}) but the user is still a member of the channel: {} members listed",
        &ua[..5.min(ua.len())],
        members.len()
      ));
    }
  }
  // the name is free again, and the returning session is a member of nothing
  let a2 = c.open_identify(&ua).await;
  if !c.user.contains_key(&a2) {
    fails.push(format!("C07: [name-not-released] after its connection ended with a connection-loop error ({variant}) the username is still in use"));
  } else {
    let before = c.inbox.get(&a2).map(|v| v.len()).unwrap_or(0);
    let id = c.id();
    c.request(b, Req::Broadcast { id, chan: chan.clone(), qos: None, payload: b"after".to_vec() }).await;
    c.pump(5).await;
    let got = c.inbox.get(&a2).map(|v| v[before.min(v.len())..].iter().filter(|f| matches!(f.msg, Message::Message(_))).count()).unwrap_or(0);
    if got > 0 {
      fails.push(format!("C01: [departed-user-delivery] the session that came back under the name received a MESSAGE of a channel it never joined ({variant})"));
    }
  }
  (c.log, fails)
}

/// Directed probe: with modulator authentication a user may hold several connections. Its last connection closes, the clean-up
/// is suspended in the modulator, and the user authenticates again on a new connection meanwhile. When the clean-up has ended
/// the new connection is still registered: it can join a channel and receives what is published there.
pub async fn probe_reauth_during_cleanup() -> (String, Vec<String>) {
  let mut cfg = SrvCfg::default();
  cfg.modulator = Some(vec![Operation::ForwardEvent, Operation::Auth]);
  cfg.request_timeout_ms = 60_000;
  let srv = Srv::new(cfg.clone()).await;
  let modu = srv.modulator.clone().unwrap();
  let mut c = Case {
    auth: true,
    srv,
    rng: Rng::new(1),
    user: BTreeMap::new(),
    dead: BTreeSet::new(),
    closing: BTreeSet::new(),
    inbox: BTreeMap::new(),
    sent: Vec::new(),
    next_id: 10,
    log: String::new(),
    fails: Vec::new(),
  };
  let a = c.open_identify("alice").await;
  let b = c.open_identify("bob").await;
  let id = c.id();
  c.request(b, Req::Join { id, chan: full("c1"), ob: None }).await;
  let id = c.id();
  c.request(a, Req::Join { id, chan: full("c1"), ob: None }).await;
  modu.set_hold(true);
  modu.script.lock().unwrap().hold_prefix = "event".into();
  c.close(a);
  c.pump(2).await;
  let _ = writeln!(c.log, "parked after alice's disconnect: {:?}", modu.parked());
  let a2 = c.open_identify("alice").await;
  let mut fails = Vec::new();
  // the clean-up finishes
  modu.set_hold(false);
  for _ in 0..10 {
    let _ = modu.parked_live();
    if modu.parked().is_empty() {
      break;
    }
    modu.release(0, true);
    c.pump(2).await;
  }
  c.pump(10).await;
  if c.user.contains_key(&a2) && !c.dead.contains(&a2) {
    let id = c.id();
    c.request(a2, Req::Join { id, chan: full("c1"), ob: None }).await;
    let joined = c.replies(a2, id).iter().any(|f| matches!(f.msg, Message::JoinChannelAck(_)));
    if joined {
      let before = c.inbox.get(&a2).map(|v| v.len()).unwrap_or(0);
      let id = c.id();
      c.request(b, Req::Broadcast { id, chan: full("c1"), qos: None, payload: b"hello-again".to_vec() }).await;
      c.pump(3).await;
      let acked = c.replies(b, id).iter().any(|f| matches!(f.msg, Message::BroadcastAck(_)));
      let got = c.inbox.get(&a2).map(|v| v[before.min(v.len())..].iter().filter(|f| matches!(f.msg, Message::Message(_))).count()).unwrap_or(0);
      if acked && got != 1 {
        for tag in ["C02", "C05"] {
          fails.push(format!(
            "{tag}: [missing-delivery] alice authenticated on a new connection while the clean-up of her previous one was still running, joined c1 afterwards (JOIN_ACK), and received {got} copies of an acknowledged broadcast: her live connection is not routable"
          ));
        }
      }
    }
  }
  (c.log, fails)
}

/// Directed probe (DESIGN D34): a user in two channels disconnects; its clean-up is suspended in the modulator at the first channel;
/// the same name identifies again and somebody publishes on the *other* channel, which the clean-up has not reached yet.
pub async fn probe_reuse_during_cleanup() -> (String, Vec<String>) {
  let mut cfg = SrvCfg::default();
  cfg.modulator = Some(vec![Operation::ForwardEvent]);
  cfg.request_timeout_ms = 60_000;
  let srv = Srv::new(cfg.clone()).await;
  let modu = srv.modulator.clone().unwrap();
  let mut c = Case {
    auth: false,
    srv,
    rng: Rng::new(1),
    user: BTreeMap::new(),
    dead: BTreeSet::new(),
    closing: BTreeSet::new(),
    inbox: BTreeMap::new(),
    sent: Vec::new(),
    next_id: 10,
    log: String::new(),
    fails: Vec::new(),
  };
  let a = c.open_identify("alice").await;
  let b = c.open_identify("bob").await;
  for h in CHANS {
    let id = c.id();
    c.request(b, Req::Join { id, chan: full(h), ob: None }).await;
    let id = c.id();
    c.request(a, Req::Join { id, chan: full(h), ob: None }).await;
  }
  modu.set_hold(true);
  modu.script.lock().unwrap().hold_prefix = "event".into();
  c.close(a);
  c.pump(2).await;
  let parked = modu.parked();
  let _ = writeln!(c.log, "parked after alice's disconnect: {parked:?}");
  // which channel is the clean-up working on? publish on the other one
  let busy = if parked.iter().any(|d| d.contains("!c1@")) { "c1" } else { "c2" };
  let other = if busy == "c1" { "c2" } else { "c1" };
  let a2 = c.open_identify("alice").await;
  let mut fails = Vec::new();
  if c.user.contains_key(&a2) {
    let before = c.inbox.get(&a2).map(|v| v.len()).unwrap_or(0);
    let id = c.id();
    c.request(b, Req::Broadcast { id, chan: full(other), qos: None, payload: b"for-members-only".to_vec() }).await;
    c.pump(3).await;
    let got = c.inbox.get(&a2).map(|v| v[before.min(v.len())..].iter().filter(|f| matches!(f.msg, Message::Message(_))).count()).unwrap_or(0);
    if got > 0 {
      fails.push(format!(
        "C01: [departed-user-delivery] alice's only connection had closed; while her clean-up was still waiting for the modulator a new session identified as alice (joined nothing) and received a MESSAGE of {other}"
      ));
    }
  } else {
    let _ = writeln!(c.log, "the name was not available while the clean-up was in progress");
  }
  // let the clean-up finish
  modu.set_hold(false);
  for _ in 0..10 {
    if modu.parked().is_empty() {
      break;
    }
    modu.release(0, true);
    c.pump(2).await;
  }
  c.pump(10).await;
  (c.log, fails)
}

/// Suite `readers` (C01 / C02 / C04 — correspondence with `Model/MicroB.lean`): BROADCAST and MEMBERS requests issued while a
/// JOIN or LEAVE on the same channel is suspended in its modulator notification (holding the channel's write lock).  The
/// harness observes whether the reader is answered before the writer finishes (it must not be), and which member list it then
/// works with: the recipients of the broadcast (plus the sender) or the list MEMBERS returns.  The Lean driver replays the same
/// schedule on the product model and prints the reader's state after each compared step.
pub async fn run_readers_suite(seed: u64, cases: usize) -> String {
  let mut master = Rng::new(seed ^ 0x7ead);
  let mut out = String::new();
  let mut stats: BTreeMap<String, u64> = BTreeMap::new();
  for case in 0..cases {
    let rng = master.fork();
    let mut cfg = SrvCfg::default();
    cfg.max_channels = 100;
    cfg.max_clients = 100;
    cfg.max_subs = 100;
    cfg.request_timeout_ms = 3_600_000;
    cfg.modulator = Some(vec![Operation::ForwardEvent]);
    let srv = Srv::new(cfg.clone()).await;
    let modu = srv.modulator.clone().unwrap();
    let mut c = Case {
      auth: false,
      srv,
      rng,
      user: BTreeMap::new(),
      dead: BTreeSet::new(),
      closing: BTreeSet::new(),
      inbox: BTreeMap::new(),
      sent: Vec::new(),
      next_id: 10,
      log: String::new(),
      fails: Vec::new(),
    };
    let mut t = String::new();
    let _ = writeln!(t, "case {case}");
    let mut conn_of: BTreeMap<usize, usize> = BTreeMap::new();
    for (i, u) in MUSERS.iter().enumerate() {
      let k = c.open_identify(u).await;
      conn_of.insert(i + 1, k);
    }
    let chan = full(CHANS[0]);
    let mut next_task = 0usize;
    let mut next_reader = 0usize;
    // initial membership, with the modulator answering at once
    let mut order: Vec<usize> = vec![1, 2, 3];
    for i in (1..order.len()).rev() {
      let j = c.rng.below(i as u64 + 1) as usize;
      order.swap(i, j);
    }
    for u in order {
      if c.rng.chance(3, 5) {
        let id = c.id();
        c.request(conn_of[&u], Req::Join { id, chan: chan.clone(), ob: None }).await;
        let _ = writeln!(t, "bj spawn {next_task} join {u} 0\nbj run {next_task}\nbj run {next_task} ok");
        next_task += 1;
      }
    }
    modu.set_hold(true);
    let rounds = c.rng.range(2, 4);
    for _ in 0..rounds {
      let live: Vec<usize> = conn_of.iter().filter(|(_, k)| !c.dead.contains(k)).map(|(u, _)| *u).collect();
      if live.len() < 2 {
        break;
      }
      // the writer
      let x = live[c.rng.below(live.len() as u64) as usize];
      let join = c.rng.chance(1, 2);
      let wid = c.id();
      let ti = next_task;
      next_task += 1;
      if join {
        c.request(conn_of[&x], Req::Join { id: wid, chan: chan.clone(), ob: None }).await;
      } else {
        c.request(conn_of[&x], Req::Leave { id: wid, chan: chan.clone(), ob: None }).await;
      }
      let _ = modu.parked_live();
      let parked = modu.parked().iter().any(|d| d.starts_with("event "));
      let _ = writeln!(t, "bj spawn {ti} {} {x} 0\nbi run {ti}\nimpl st {}", if join { "join" } else { "leave" }, if parked { format!("{ti}:P") } else { String::new() });
      *stats.entry(format!("writer-{}-{}", if join { "join" } else { "leave" }, if parked { "parked" } else { "answered" })).or_insert(0) += 1;
      // the reader: another live user
      let others: Vec<usize> = live.iter().copied().filter(|u| *u != x).collect();
      let y = others[c.rng.below(others.len() as u64) as usize];
      let bcast = c.rng.chance(3, 5);
      let rid = c.id();
      let ri = next_reader;
      next_reader += 1;
      let payload = format!("rd{case}-{rid}").into_bytes();
      let marks: BTreeMap<usize, usize> = conn_of.iter().map(|(u, k)| (*u, c.inbox.get(k).map(|v| v.len()).unwrap_or(0))).collect();
      if bcast {
        c.request(conn_of[&y], Req::Broadcast { id: rid, chan: chan.clone(), qos: None, payload: payload.clone() }).await;
      } else {
        c.request(conn_of[&y], Req::Members { id: rid, chan: chan.clone(), page: None, size: None }).await;
      }
      // the modulator's payload gate comes before the channel manager: let the payload through at once
      if let Some(pi) = modu.parked().iter().position(|d| d.starts_with("payload ")) {
        modu.release(pi, true);
      }
      c.pump(4).await;
      let conns_now = conn_of.clone();
      let observe = |c: &Case| -> String {
        let conn_of = &conns_now;
        let k = conn_of[&y];
        let reps = c.replies(k, rid);
        let Some(f) = reps.first() else { return "rd wait".to_string() };
        match &f.msg {
          Message::Error(p) => match p.reason.as_ref() {
            "CHANNEL_NOT_FOUND" => "rd notfound".into(),
            "FORBIDDEN" | "USER_NOT_IN_CHANNEL" => "rd notmember".into(),
            other => format!("rd error({other})"),
          },
          Message::ListMembersAck(p) => {
            let mut us: Vec<usize> =
              p.members.iter().filter_map(|m| MUSERS.iter().position(|mu| m.to_string().starts_with(&format!("{mu}@"))).map(|i| i + 1)).collect();
            us.sort();
            format!("rd ok:{}", us.iter().map(|u| u.to_string()).collect::<Vec<_>>().join(","))
          },
          Message::BroadcastAck(_) => {
            // who was sent this payload, plus the sender
            let mut us: Vec<usize> = vec![y];
            for (u, k) in conn_of {
              let from = marks[u];
              let got = c.inbox.get(k).map(|v| v[from.min(v.len())..].iter().filter(|f| matches!(f.msg, Message::Message(_)) && f.payload.as_deref() == Some(&payload[..])).count()).unwrap_or(0);
              for _ in 0..got {
                us.push(*u);
              }
            }
            us.sort();
            format!("rd ok:{}", us.iter().map(|u| u.to_string()).collect::<Vec<_>>().join(","))
          },
          _ => format!("rd other({})", f.text.split_whitespace().next().unwrap_or("?")),
        }
      };
      let _ = writeln!(t, "bj rspawn {ri} {y} 0\nbi rrun {ri}\nimpl {}", observe(&c));
      *stats.entry(format!("reader-{}", if bcast { "broadcast" } else { "members" })).or_insert(0) += 1;
      // the writer's notification returns
      if parked {
        // a refused JOIN notification ends the requester's connection; LEAVEs are always acknowledged here
        let ok = !join || c.rng.chance(2, 3);
        let wi = modu.parked().iter().position(|d| d.starts_with("event ")).unwrap_or(0);
        modu.release(wi, ok);
        c.pump(1).await;
        let _ = modu.parked_live();
        if std::env::var("MICRO_TRACE").is_ok() {
          eprintln!("parked after release: {:?}", modu.parked());
        }
        if !join && modu.parked().iter().any(|d| d.starts_with("event MEMBER_JOINED") && d.ends_with("owner=true")) {
          // the hand-over announcement of a LEAVE by the owner: the lock is still held
          let _ = writeln!(t, "bj run {ti} ok owner\nbi rrun {ri}\nimpl {}", observe(&c));
          let hi = modu.parked().iter().position(|d| d.starts_with("event ")).unwrap_or(0);
          modu.release(hi, true);
          c.pump(1).await;
          let _ = writeln!(t, "bj run {ti} ok");
          *stats.entry("handover".into()).or_insert(0) += 1;
        } else {
          let _ = writeln!(t, "bj run {ti} {}", if ok { "ok" } else { "fail" });
        }
        *stats.entry(format!("release-{}", if ok { "ok" } else { "fail" })).or_insert(0) += 1;
        if !ok {
          c.pump(2).await;
          if c.dead.contains(&conn_of[&x]) {
            let _ = writeln!(t, "bj cleanup {x}");
            conn_of.remove(&x);
          }
        }
      }
      c.pump(2).await;
      let res = observe(&c);
      let _ = writeln!(t, "bi rrun {ri}\nimpl {res}");
      *stats.entry(format!("result-{}", res.split(':').next().unwrap_or("").replace("rd ", ""))).or_insert(0) += 1;
      if res == "rd wait" {
        // the statement itself (C13 / C02): with no writer left the reader must have been answered
        let _ = writeln!(t, "oracle-failure case={case} C02: a {} issued while a {} of the same channel was suspended in its notification is still unanswered after that request finished", if bcast { "BROADCAST" } else { "MEMBERS" }, if join { "JOIN" } else { "LEAVE" });
      }
    }
    if std::env::var("MICRO_TRACE").is_ok() {
      eprintln!("==== case {case}\n{}", c.log);
    }
    out.push_str(&t);
  }
  let _ = writeln!(out, "stats {{\"suite\":\"readers\",\"seed\":{seed},\"cases\":{cases},\"ops\":{}}}", crate::js_map(&stats));
  out
}
