//! Property oracles evaluated directly on the implementation's trace, independently of the Lean model.
//! They reconstruct only what a client could know from the frames it saw (acks, events, closes) and
//! flag observable violations of the property statements.  Each failure is `Cxx: text`.
use std::collections::{BTreeMap, BTreeSet};

use narwhal_protocol::Message;

use crate::srv::{RFrame, SrvCfg, VerdictS};
use crate::srv_suite::{EnvS, Op, Req};

pub struct Oracle {
  domain: String,
  has_mod: bool,
  max_subs: usize,
  max_clients: usize,
  max_channels: usize,
  /// connection -> (phase 0/1/2, username)
  pub conns: BTreeMap<usize, (u8, Option<String>)>,
  /// channel handler -> members (usernames), as acknowledged
  pub members: BTreeMap<String, BTreeSet<String>>,
  /// channel handler -> owner
  pub owner: BTreeMap<String, String>,
  /// (channel handler, acl type) -> allow-list as last read back by the owner (None: changed since)
  pub reported: BTreeMap<(String, String), Option<Vec<String>>>,
  /// last acknowledged update, to be checked against the next full read-back of the same list
  pub expect_acl: Option<(String, String, String, Vec<String>)>,
  /// channel handler -> (max_clients, max_payload_size) as acknowledged since the channel was created
  pub config: BTreeMap<String, (u32, u32)>,
  default_config: (u32, u32),
  fwd_event: bool,
  auth_mode: bool,
  pub failures: Vec<String>,
}

fn handler_of(chan: &str, domain: &str) -> Option<String> {
  let rest = chan.strip_prefix('!')?;
  let (h, d) = rest.split_once('@')?;
  if d == domain { Some(h.to_string()) } else { None }
}
fn user_of(nid: &str, domain: &str) -> Option<String> {
  let (u, d) = nid.split_once('@')?;
  if d == domain { Some(u.to_string()) } else { None }
}

/// C03: the decision the *reported* allow-list prescribes for `user@domain`
fn permitted_by(list: &[String], user: &str, domain: &str) -> bool {
  list.is_empty() || list.iter().any(|n| n == &format!("{user}@{domain}") || n == domain)
}

impl Oracle {
  fn known_list(&self, h: &str, ty: &str) -> Option<Vec<String>> {
    match self.reported.get(&(h.to_string(), ty.to_string())) {
      Some(Some(l)) => Some(l.clone()),
      Some(None) => None,
      // never set since the channel was created: the list is empty
      None => Some(Vec::new()),
    }
  }

  pub fn new(cfg: &SrvCfg) -> Self {
    Oracle {
      domain: cfg.domain.clone(),
      has_mod: cfg.modulator.is_some(),
      max_subs: cfg.max_subs as usize,
      max_clients: cfg.max_clients as usize,
      max_channels: cfg.max_channels as usize,
      conns: BTreeMap::new(),
      members: BTreeMap::new(),
      owner: BTreeMap::new(),
      reported: BTreeMap::new(),
      expect_acl: None,
      config: BTreeMap::new(),
      default_config: (cfg.max_clients, cfg.max_payload),
      fwd_event: cfg.has_op(narwhal_modulator::modulator::Operation::ForwardEvent),
      auth_mode: cfg.has_op(narwhal_modulator::modulator::Operation::Auth),
      failures: Vec::new(),
    }
  }

  /// C05 / C18: when connection `k` is the last one of its user, every remaining member of every channel
  /// the user was in must be told (MEMBER_LEFT) in the same step
  fn check_cleanup(&self, k: usize, env: &EnvS, got: &BTreeMap<usize, (Vec<RFrame>, bool)>, fails: &mut Vec<String>) {
    let Some((2, Some(u))) = self.conns.get(&k).cloned() else { return };
    if self.conns_of(&u).iter().any(|k2| *k2 != k) {
      return;
    }
    let nid = format!("{u}@{}", self.domain);
    for (h, ms) in &self.members {
      if !ms.contains(&u) {
        continue;
      }
      let chan = format!("!{h}@{}", self.domain);
      for v in ms.iter().filter(|v| **v != u) {
        for k2 in self.conns_of(v) {
          let (fr2, closed2) = match got.get(&k2) {
            Some(g) => (&g.0[..], g.1),
            None => (&[][..], false),
          };
          if closed2 {
            continue;
          }
          let told = fr2.iter().any(|f| {
            matches!(&f.msg, Message::Event(p) if p.kind.as_ref() == "MEMBER_LEFT"
              && p.channel.as_ref().map(|c| c.to_string()) == Some(chan.clone())
              && p.nid.as_ref().map(|n| n.to_string()) == Some(nid.clone()))
          });
          if !told {
            for tag in ["C05", "C18"] {
              if (self.fwd_event && !env.ev_ok) || (self.has_mod && env.down) {
                fails.push(format!("{tag}: [cleanup-event-lost-when-forwarding-fails] the last connection of {u} ended while the modulator refused the event: member {v} of {h} (connection {k2}) was not told"));
              } else {
                fails.push(format!("{tag}: [cleanup-not-announced] the last connection of {u} ended but member {v} of {h} (connection {k2}) was not told MEMBER_LEFT"));
              }
            }
          }
        }
      }
    }
  }

  fn conns_of(&self, user: &str) -> Vec<usize> {
    self.conns.iter().filter(|(_, (p, u))| *p == 2 && u.as_deref() == Some(user)).map(|(k, _)| *k).collect()
  }

  /// the channel has members but the oracle could not learn who owns it (the hand-over events of a clean-up were lost
  /// because the modulator refused them): owner-dependent judgements are then suspended for that channel
  fn owner_unknown(&self, h: &str) -> bool {
    self.members.get(h).is_some_and(|s| !s.is_empty()) && !self.owner.contains_key(h)
  }

  fn drop_conn(&mut self, k: usize) {
    if let Some((2, Some(u))) = self.conns.remove(&k) {
      if self.conns_of(&u).is_empty() {
        for (c, m) in self.members.iter_mut() {
          if m.remove(&u) && self.owner.get(c) == Some(&u) {
            self.owner.remove(c);
          }
        }
        self.members.retain(|_, m| !m.is_empty());
        let live: BTreeSet<String> = self.members.keys().cloned().collect();
        self.reported.retain(|(h, _), _| live.contains(h));
        self.config.retain(|h, _| live.contains(h));
        if self.expect_acl.as_ref().is_some_and(|e| !live.contains(&e.0)) {
          self.expect_acl = None;
        }
      }
    }
  }

  pub fn observe(&mut self, op: &Op, env: &EnvS, got: &BTreeMap<usize, (Vec<RFrame>, bool)>, last_opened: usize) {
    let mut fails: Vec<String> = Vec::new();
    let empty: (Vec<RFrame>, bool) = (Vec::new(), false);

    // ---- generic frame sanity: nothing unparseable, no bad terminators
    for (k, (frames, _)) in got {
      for f in frames {
        if f.text.starts_with("UNPARSEABLE") || f.text.ends_with("BAD-TERMINATOR") || f.text.starts_with("UNSERIALIZABLE") {
          fails.push(format!("C15: connection {k} received a damaged frame: {}", f.text));
        }
      }
    }

    // ---- C06 / C01: a connection that is not authenticated receives no channel traffic
    for (k, (frames, _)) in got {
      let phase = self.conns.get(k).map(|c| c.0).unwrap_or(0);
      if phase < 2 {
        for f in frames {
          if matches!(f.msg, Message::Message(_) | Message::Event(_) | Message::ModDirect(_)) {
            fails.push(format!("C06: unauthenticated connection {k} received {}", f.text));
          }
        }
      }
    }

    match op {
      Op::Open => {
        self.conns.insert(last_opened, (0, None));
      },
      Op::Close(k) => {
        self.check_cleanup(*k, env, got, &mut fails);
        self.drop_conn(*k);
      },
      Op::Recv(k, req) => {
        let (frames, eof) = got.get(k).unwrap_or(&empty);
        let phase = self.conns.get(k).map(|c| c.0).unwrap_or(0);
        let user = self.conns.get(k).and_then(|c| c.1.clone());

        // ---- C06: before authentication nothing but handshake replies or ERROR+close
        if phase < 2 {
          let is_handshake = matches!(
            (phase, req),
            (0, Req::Connect { .. }) | (1, Req::Identify { .. }) | (1, Req::Auth { .. })
          );
          if !is_handshake {
            let ok = frames.len() == 1 && matches!(frames[0].msg, Message::Error(_)) && *eof;
            if !ok {
              fails.push(format!(
                "C06: out-of-phase request in phase {phase} was not answered by ERROR+close: {:?}",
                frames.iter().map(|f| f.text.clone()).collect::<Vec<_>>()
              ));
            }
            for (k2, (fr2, _)) in got {
              if k2 != k && !fr2.is_empty() {
                fails.push(format!("C06: out-of-phase request from connection {k} caused traffic to connection {k2}"));
              }
            }
          }
          for f in frames {
            match &f.msg {
              Message::ConnectAck(_) => {
                if phase != 0 {
                  fails.push("C06: CONNECT_ACK outside the connecting phase".into());
                }
                self.conns.insert(*k, (1, None));
              },
              Message::IdentifyAck(p) => {
                let nid = p.nid.to_string();
                if self.auth_mode {
                  for tag in ["C09", "C06"] {
                    fails.push(format!("{tag}: IDENTIFY was acknowledged ({nid}) although the modulator authenticates clients: the connection is authenticated without any token having been approved"));
                  }
                }
                match user_of(&nid, &self.domain) {
                  Some(u) if !u.is_empty() && !u.contains(char::is_whitespace) && !u.contains('@') => {
                    if !self.conns_of(&u).is_empty() {
                      fails.push(format!("C07: username {u} assigned to a second live connection"));
                    }
                    if self.members.values().any(|m| m.contains(&u)) {
                      fails.push(format!("C05: new session {u} starts as a member of a channel"));
                    }
                    self.conns.insert(*k, (2, Some(u)));
                  },
                  _ => fails.push(format!("C07: ill-formed NID assigned: {nid:?}")),
                }
              },
              Message::AuthAck(p) if p.succeeded == Some(true) => {
                let nid = p.nid.as_ref().map(|n| n.to_string()).unwrap_or_default();
                let expect = match &env.auth {
                  Some(crate::srv::AuthS::Success(u)) => Some(format!("{u}@{}", self.domain)),
                  _ => None,
                };
                if expect.as_deref() != Some(nid.as_str()) {
                  fails.push(format!("C09: authenticated as {nid:?} although the modulator said {:?}", env.auth));
                }
                match user_of(&nid, &self.domain) {
                  Some(u) if !u.is_empty() && !u.contains(char::is_whitespace) && !u.contains('@') => {
                    self.conns.insert(*k, (2, Some(u)));
                  },
                  _ => fails.push(format!("C07: ill-formed NID assigned: {nid:?}")),
                }
              },
              _ => {},
            }
          }
        } else if let Some(u) = user.clone() {
          // ---- C12: exactly one reply with the request's id, or ERROR + close
          let rid: Option<u32> = match req {
            Req::Join { id, .. }
            | Req::Leave { id, .. }
            | Req::Broadcast { id, .. }
            | Req::Members { id, .. }
            | Req::Channels { id, .. }
            | Req::GetAcl { id, .. }
            | Req::SetAcl { id, .. }
            | Req::GetConfig { id, .. }
            | Req::SetConfig { id, .. } => Some(*id),
            Req::ModDirect { id, .. } => *id,
            _ => None,
          };
          let closed_with_error = *eof && frames.last().is_some_and(|f| matches!(f.msg, Message::Error(_)));
          if let Some(id) = rid {
            let with_id: Vec<&RFrame> = frames.iter().filter(|f| f.msg.correlation_id() == Some(id)).collect();
            if !closed_with_error && with_id.len() != 1 {
              fails.push(format!(
                "C12: request id={id} ({}) got {} frames with its id and the connection stayed open: {:?}",
                req.model().split(' ').next().unwrap_or(""),
                with_id.len(),
                frames.iter().map(|f| f.text.clone()).collect::<Vec<_>>()
              ));
            }
            for f in frames {
              if let Some(other) = f.msg.correlation_id() {
                if other != id && !matches!(f.msg, Message::Ping(_)) {
                  fails.push(format!("C12: reply carries id {other} that the client did not send in this step"));
                }
              }
            }
          } else if !closed_with_error && !*eof {
            fails.push(format!("C12: id-less or unknown request was not answered by ERROR+close: {}", req.model()));
          }

          // ---- C03: decisions agree with the allow-list as last reported
          if let Req::Join { id, chan, ob } = req {
            if let Some(h) = handler_of(chan, &self.domain) {
              if self.members.contains_key(&h) {
                if let Some(list) = self.known_list(&h, "join") {
                  let m = match ob {
                    Some(n) => user_of(n, &self.domain),
                    None => Some(u.clone()),
                  };
                  if let Some(m) = m {
                    let acked = frames.iter().any(|f| matches!(&f.msg, Message::JoinChannelAck(p) if p.id == *id));
                    let refused = frames
                      .iter()
                      .any(|f| matches!(&f.msg, Message::Error(p) if p.reason.as_ref() == "NOT_ALLOWED" && p.id == Some(*id)));
                    let allowed = permitted_by(&list, &m, &self.domain);
                    if acked && !allowed {
                      fails.push(format!("C03: {m} joined {h} although the reported join list {list:?} does not permit it"));
                    }
                    if refused && allowed {
                      fails.push(format!("C03: {m} refused NOT_ALLOWED on {h} although the reported join list {list:?} permits it"));
                    }
                  }
                }
              }
            }
          }
          if let Req::GetAcl { id, chan, ty, page, size } = req {
            for f in frames {
              if let Message::ChannelAcl(p) = &f.msg {
                if p.id == *id && (page.is_none() || size.is_none()) {
                  if let Some(h) = handler_of(chan, &self.domain) {
                    let list: Vec<String> = p.nids.iter().map(|n| n.to_string()).collect();
                    if let Some(Some(prev)) = self.reported.get(&(h.clone(), ty.to_string())) {
                      if *prev != list {
                        fails.push(format!("C03: {ty} list of {h} changed from {prev:?} to {list:?} without an acknowledged SET_CHAN_ACL"));
                      }
                    }
                    if let Some((eh, ety, eact, enids)) = self.expect_acl.clone() {
                      if eh == h && ety == *ty {
                        for n in enids.iter().filter(|n| n.contains('@')) {
                          let present = list.contains(n);
                          if eact == "add" && !present {
                            fails.push(format!("C03: {n} was added to the {ty} list of {h} but is not reported: {list:?}"));
                          }
                          if eact == "remove" && present {
                            fails.push(format!("C03: {n} was removed from the {ty} list of {h} but is still reported: {list:?}"));
                          }
                        }
                        self.expect_acl = None;
                      }
                    }
                    self.reported.insert((h, ty.to_string()), Some(list));
                  }
                }
              }
            }
          }
          if let Req::SetAcl { id, chan, ty, act, nids } = req {
            if let Some(h) = handler_of(chan, &self.domain) {
              let acked = frames.iter().any(|f| matches!(&f.msg, Message::SetChannelAclAck(p) if p.id == *id));
              if acked {
                // expectation for the next read-back: named *user* NIDs present (add) / absent (remove)
                self.reported.insert((h.clone(), ty.to_string()), None);
                self.expect_acl = Some((h, ty.to_string(), act.to_string(), nids.clone()));
              }
            }
          }

          // ---- C14 / C18 around JOIN
          if let Req::Join { id, chan, ob } = req {
            let acked = frames.iter().any(|f| matches!(&f.msg, Message::JoinChannelAck(p) if p.id == *id));
            let m = match ob {
              Some(n) => user_of(n, &self.domain),
              None => Some(u.clone()),
            };
            if let (Some(h), Some(m)) = (handler_of(chan, &self.domain), m) {
              let subs = self.members.values().filter(|s| s.contains(&m)).count();
              let size = self.members.get(&h).map(|s| s.len()).unwrap_or(0);
              let creating = !self.members.contains_key(&h);
              if acked {
                if subs >= self.max_subs {
                  fails.push(format!("C14: {m} joined {h} while already subscribed to {subs} channels (max_subscriptions {})", self.max_subs));
                }
                if creating && self.members.len() >= self.max_channels {
                  fails.push(format!("C14: channel {h} created beyond max_channels {}", self.max_channels));
                }
                let _ = size;
              } else {
                let limit_hit = frames.iter().any(|f| matches!(&f.msg, Message::Error(p) if p.reason.as_ref() == "POLICY_VIOLATION" && p.id == Some(*id)));
                if limit_hit && subs < self.max_subs {
                  fails.push(format!("C14: {m} refused with the subscription limit on {h} while subscribed to only {subs} of {} channels", self.max_subs));
                }
                // (the member sets are known exactly only while no clean-up has lost its announcements)
                let overloaded = frames.iter().any(|f| matches!(&f.msg, Message::Error(p) if p.reason.as_ref() == "SERVER_OVERLOADED" && p.id == Some(*id)));
                if overloaded && creating && self.members.len() < self.max_channels && self.members.values().all(|s| !s.is_empty()) {
                  fails.push(format!(
                    "C14: creating {h} was refused with the channel limit while only {} of {} channels exist: slots of channels that are gone were not released",
                    self.members.len(),
                    self.max_channels
                  ));
                }
                let full = frames.iter().any(|f| matches!(&f.msg, Message::Error(p) if p.reason.as_ref() == "CHANNEL_IS_FULL" && p.id == Some(*id)));
                if full && size < self.max_clients.min(size + 1) && false {
                  fails.push(format!("C14: {h} reported full with {size} members"));
                }
                // C18: a join that was not acknowledged must not be announced
                for (k2, (fr2, _)) in got {
                  for f in fr2 {
                    if let Message::Event(p) = &f.msg {
                      if p.kind.as_ref() == "MEMBER_JOINED"
                        && p.nid.as_ref().map(|n| n.to_string()) == Some(format!("{m}@{}", self.domain))
                        && p.channel.as_ref().map(|c| c.to_string()) == Some(format!("!{h}@{}", self.domain))
                      {
                        fails.push(format!("C18: connection {k2} was told that {m} joined {h}, but the JOIN was not acknowledged"));
                      }
                    }
                  }
                }
              }
            }
          }
          // ---- C04 / C18 around LEAVE: owner flag and hand-over
          if let Req::Leave { id, chan, ob } = req {
            let acked = frames.iter().any(|f| matches!(&f.msg, Message::LeaveChannelAck(p) if p.id == *id));
            let m = match ob {
              Some(n) => user_of(n, &self.domain),
              None => Some(u.clone()),
            };
            if let (true, Some(h), Some(m)) = (acked, handler_of(chan, &self.domain), m) {
              let was_owner = self.owner.get(&h) == Some(&m);
              let remaining = self.members.get(&h).map(|s| s.iter().filter(|x| **x != m).count()).unwrap_or(0);
              let chan_full = format!("!{h}@{}", self.domain);
              let mut handed = false;
              for (fr2, _) in got.values() {
                for f in fr2 {
                  if let Message::Event(p) = &f.msg {
                    if p.channel.as_ref().map(|c| c.to_string()) != Some(chan_full.clone()) {
                      continue;
                    }
                    if p.kind.as_ref() == "MEMBER_LEFT" && p.owner != Some(was_owner) && self.owner.contains_key(&h) {
                      fails.push(format!("C18: MEMBER_LEFT of {m} on {h} says owner={:?} but the owner was {:?}", p.owner, self.owner.get(&h)));
                    }
                    if p.kind.as_ref() == "MEMBER_JOINED" && p.owner == Some(true) {
                      handed = true;
                    }
                  }
                }
              }
              if was_owner && remaining > 0 && !env.quiet() && !handed {
                fails.push(format!("C04: owner {m} left {h} with {remaining} members remaining but no new owner was announced"));
              }
              // (after a clean-up whose events the modulator refused nobody was told who the successor is: unknown owner)
              if self.owner.contains_key(&h) && !was_owner && handed {
                fails.push(format!("C04: ownership of {h} changed hands although the owner did not leave"));
              }
            }
          }

          // ---- membership bookkeeping from acknowledgements
          match req {
            Req::Join { id, chan, ob } => {
              if frames.iter().any(|f| matches!(&f.msg, Message::JoinChannelAck(p) if p.id == *id)) {
                if let Some(h) = handler_of(chan, &self.domain) {
                  let m = match ob {
                    Some(n) => user_of(n, &self.domain),
                    None => Some(u.clone()),
                  };
                  match m {
                    Some(m) => {
                      if ob.is_some() && self.owner.get(&h) != Some(&u) && !self.owner_unknown(&h) {
                        fails.push(format!("C04: on_behalf JOIN by non-owner {u} on {h} succeeded"));
                      }
                      if ob.is_some() && self.conns_of(&m).is_empty() {
                        fails.push(format!("C05: {m} joined on behalf without a live connection"));
                      }
                      let set = self.members.entry(h.clone()).or_default();
                      if set.is_empty() {
                        self.owner.insert(h.clone(), m.clone());
                      }
                      if !set.insert(m.clone()) {
                        fails.push(format!("C05: JOIN_ACK for {m} who already was a member of {h}"));
                      }
                    },
                    None => fails.push(format!("C05: JOIN_ACK for a foreign-domain member {ob:?}")),
                  }
                } else {
                  fails.push(format!("C05: JOIN_ACK for a non-local or ill-formed channel {chan:?}"));
                }
              }
            },
            Req::Leave { id, chan, ob } => {
              if frames.iter().any(|f| matches!(&f.msg, Message::LeaveChannelAck(p) if p.id == *id)) {
                if let Some(h) = handler_of(chan, &self.domain) {
                  let m = match ob {
                    Some(n) => user_of(n, &self.domain),
                    None => Some(u.clone()),
                  };
                  if ob.is_some() && self.owner.get(&h) != Some(&u) && !self.owner_unknown(&h) {
                    fails.push(format!("C04: on_behalf LEAVE by non-owner {u} on {h} succeeded"));
                  }
                  if let Some(m) = m {
                    let was = self.members.get_mut(&h).map(|s| s.remove(&m)).unwrap_or(false);
                    if !was {
                      fails.push(format!("C05: LEAVE_ACK for {m} who was not a member of {h}"));
                    }
                    if self.owner.get(&h) == Some(&m) {
                      self.owner.remove(&h);
                    }
                    if self.members.get(&h).is_some_and(|s| s.is_empty()) {
                      self.members.remove(&h);
                      self.config.remove(&h);
                      self.reported.retain(|(hh, _), _| *hh != h);
                      if self.expect_acl.as_ref().is_some_and(|e| e.0 == h) {
                        self.expect_acl = None;
                      }
                    }
                  }
                }
              }
            },
            Req::SetAcl { id, chan, .. } | Req::SetConfig { id, chan, .. } | Req::GetAcl { id, chan, .. } => {
              let acked = frames.iter().any(|f| {
                f.msg.correlation_id() == Some(*id)
                  && matches!(
                    f.msg,
                    Message::SetChannelAclAck(_) | Message::SetChannelConfigurationAck(_) | Message::ChannelAcl(_)
                  )
              });
              if acked {
                if let Some(h) = handler_of(chan, &self.domain) {
                  if self.owner.get(&h) != Some(&u) && !self.owner_unknown(&h) {
                    fails.push(format!("C04: {} by non-owner {u} on {h} succeeded", req.model().split(' ').next().unwrap()));
                  }
                }
              }
            },
            Req::Members { id, chan, .. } | Req::GetConfig { id, chan, .. } => {
              let acked = frames.iter().any(|f| {
                f.msg.correlation_id() == Some(*id)
                  && matches!(f.msg, Message::ListMembersAck(_) | Message::ChannelConfiguration(_))
              });
              if acked {
                // GET_CHAN_CONFIG looks the channel up by handler only
                let h = chan.strip_prefix('!').and_then(|r| r.split_once('@')).map(|x| x.0.to_string());
                if let Some(h) = h {
                  if !self.members.get(&h).is_some_and(|s| s.contains(&u)) {
                    fails.push(format!("C04: {} by non-member {u} on {h} succeeded", req.model().split(' ').next().unwrap()));
                  }
                }
              }
            },
            _ => {},
          }

          // ---- C05: both listings agree with the membership implied by the acknowledgements; existence probes
          if let Req::Channels { id, owner, .. } = req {
            for f in frames {
              if let Message::ListChannelsAck(p) = &f.msg {
                if p.id != *id {
                  continue;
                }
                let mine: BTreeSet<String> =
                  self.members.iter().filter(|(_, m)| m.contains(&u)).map(|(h, _)| format!("!{h}@{}", self.domain)).collect();
                let listed: Vec<String> = p.channels.iter().map(|c| c.to_string()).collect();
                for c in &listed {
                  if !mine.contains(c) {
                    fails.push(format!("C05: [views] CHANNELS of {u} lists {c}, which {u} has not joined (or has left)"));
                  }
                }
                if !*owner {
                  let total = p.total_count.map(|t| t as usize).unwrap_or(listed.len());
                  if total != mine.len() {
                    fails.push(format!("C05: [views] CHANNELS of {u} reports {total} channels but {u} is a member of {}: {mine:?}", mine.len()));
                  }
                }
              }
            }
          }
          if let Req::Members { id, chan, .. } = req {
            if let Some(h) = handler_of(chan, &self.domain) {
              for f in frames {
                match &f.msg {
                  Message::ListMembersAck(p) if p.id == *id => {
                    let expect: BTreeSet<String> =
                      self.members.get(&h).map(|s| s.iter().map(|m| format!("{m}@{}", self.domain)).collect()).unwrap_or_default();
                    let listed: Vec<String> = p.members.iter().map(|c| c.to_string()).collect();
                    for m in &listed {
                      if !expect.contains(m) {
                        fails.push(format!("C05: [views] MEMBERS of {h} lists {m}, who has not joined (or has left / disconnected)"));
                      }
                    }
                    let total = p.total_count.map(|t| t as usize).unwrap_or(listed.len());
                    if total != expect.len() {
                      fails.push(format!("C05: [views] MEMBERS of {h} reports {total} members but {} joined and did not leave: {expect:?}", expect.len()));
                    }
                  },
                  Message::Error(p) if p.id == Some(*id) => {
                    let exists = self.members.contains_key(&h);
                    if p.reason.as_ref() == "CHANNEL_NOT_FOUND" && exists {
                      fails.push(format!("C05: [existence] {h} has members {:?} but the server says CHANNEL_NOT_FOUND", self.members.get(&h)));
                    }
                    if p.reason.as_ref() == "USER_NOT_IN_CHANNEL" && !exists {
                      fails.push(format!("C05: [existence] channel {h} exists although it has no members"));
                    }
                  },
                  _ => {},
                }
              }
            }
          }
          if let Req::SetConfig { id, chan, mc, mp } = req {
            if frames.iter().any(|f| matches!(&f.msg, Message::SetChannelConfigurationAck(p) if p.id == *id)) {
              if let Some(h) = handler_of(chan, &self.domain) {
                let cur = self.config.get(&h).cloned().unwrap_or(self.default_config);
                self.config.insert(h, (if *mc > 0 { *mc } else { cur.0 }, if *mp > 0 { *mp } else { cur.1 }));
              }
            }
          }
          if let Req::GetConfig { id, chan } = req {
            let h = chan.strip_prefix('!').and_then(|r| r.split_once('@')).map(|x| x.0.to_string());
            if let Some(h) = h {
              for f in frames {
                if let Message::ChannelConfiguration(p) = &f.msg {
                  if p.id == *id {
                    let expect = self.config.get(&h).cloned().unwrap_or(self.default_config);
                    if (p.max_clients, p.max_payload_size) != expect {
                      fails.push(format!(
                        "C05: [fresh] configuration of {h} is ({}, {}) but since its creation only {expect:?} was acknowledged",
                        p.max_clients, p.max_payload_size
                      ));
                    }
                  }
                }
              }
            }
          }

          // ---- C01 / C02 / C08: deliveries of a broadcast
          if let Req::Broadcast { id, chan, payload, .. } = req {
            let acked = frames.iter().any(|f| matches!(&f.msg, Message::BroadcastAck(p) if p.id == *id));
            let accepted: Option<Vec<u8>> = if self.has_mod {
              match env.verdict.clone().unwrap_or(VerdictS::Valid) {
                VerdictS::Valid => Some(payload.clone()),
                // an alteration to nothing cannot be carried by a MESSAGE: it is no valid answer (fail-closed)
                VerdictS::Altered(p) if p.is_empty() => None,
                VerdictS::Altered(p) => Some(p),
                _ => None,
              }
            } else {
              Some(payload.clone())
            };
            if acked && accepted.is_none() {
              fails.push(format!(
                "C08: BROADCAST id={id} was acknowledged although the modulator did not declare the payload valid (verdict {:?})",
                env.verdict
              ));
            }
            let from = format!("{u}@{}", self.domain);
            let h = handler_of(chan, &self.domain);
            let mut delivered: BTreeMap<usize, usize> = BTreeMap::new();
            for (k2, (fr2, _)) in got {
              for f in fr2 {
                if let Message::Message(p) = &f.msg {
                  *delivered.entry(*k2).or_insert(0) += 1;
                  if *k2 == *k {
                    fails.push("C02: the sending connection received its own broadcast".into());
                  }
                  if p.channel.as_ref() != chan.as_str() {
                    fails.push(format!("C01: payload for {chan} delivered under channel name {}", p.channel));
                  }
                  if p.from.as_ref() != from {
                    fails.push(format!("C07: MESSAGE from={} but the sender is {from}", p.from));
                  }
                  match &accepted {
                    None => fails.push("C08: delivery although the modulator did not declare the payload valid".into()),
                    Some(a) => {
                      if f.payload.as_deref() != Some(&a[..]) || p.length as usize != a.len() {
                        fails.push(format!("C02: delivered bytes differ from the accepted payload (len {} vs {})", p.length, a.len()));
                      }
                    },
                  }
                  let ru = self.conns.get(k2).and_then(|c| c.1.clone());
                  let is_member = match (&h, &ru) {
                    (Some(h), Some(ru)) => self.members.get(h).is_some_and(|s| s.contains(ru)),
                    _ => false,
                  };
                  if !is_member {
                    fails.push(format!("C01: connection {k2} ({ru:?}) received a MESSAGE of {chan} without being a member"));
                  }
                  let sender_member = h.as_ref().is_some_and(|h| self.members.get(h).is_some_and(|s| s.contains(&u)));
                  if !sender_member {
                    fails.push(format!("C01: broadcast by non-member {u} on {chan} was delivered"));
                  }
                }
              }
            }
            // C03: publish and read decisions agree with the lists as last reported
            if let Some(h) = &h {
              let is_member = self.members.get(h).is_some_and(|s| s.contains(&u));
              if is_member {
                if let Some(pl) = self.known_list(h, "publish") {
                  let allowed = permitted_by(&pl, &u, &self.domain);
                  let refused = frames
                    .iter()
                    .any(|f| matches!(&f.msg, Message::Error(p) if p.reason.as_ref() == "NOT_ALLOWED" && p.id == Some(*id)));
                  if acked && !allowed {
                    fails.push(format!("C03: {u} published to {h} although the reported publish list {pl:?} does not permit it"));
                  }
                  if refused && allowed {
                    fails.push(format!("C03: {u} refused NOT_ALLOWED on {h} although the reported publish list {pl:?} permits it"));
                  }
                }
                if acked {
                  if let Some(rl) = self.known_list(h, "read") {
                    let members: Vec<String> = self.members.get(h).map(|s| s.iter().cloned().collect()).unwrap_or_default();
                    for m in members {
                      let allowed = permitted_by(&rl, &m, &self.domain);
                      for k2 in self.conns_of(&m) {
                        if k2 == *k {
                          continue;
                        }
                        let got_it = delivered.contains_key(&k2);
                        let closed = got.get(&k2).is_some_and(|g| g.1);
                        if got_it && !allowed {
                          fails.push(format!("C03: member {m} received a payload of {h} although the reported read list {rl:?} does not permit it"));
                        }
                        if !got_it && allowed && closed {
                          // the only alternative to the delivery is a disconnect with an outbound-queue error
                          let queue_full = got.get(&k2).is_some_and(|g| g.0.iter().any(|f| matches!(&f.msg, Message::Error(p) if p.reason.as_ref() == "OUTBOUND_QUEUE_FULL")));
                          if !queue_full {
                            fails.push(format!("C02: [receiver-dropped] BROADCAST id={id} on {h} was acknowledged; connection {k2} of read-permitted member {m} received no MESSAGE and was disconnected without an outbound-queue error"));
                          }
                        }
                        if !got_it && allowed && !closed {
                          fails.push(format!("C03: member {m} (connection {k2}) got nothing from an acknowledged broadcast on {h} although the reported read list {rl:?} permits it"));
                          fails.push(format!("C02: [missing-delivery] BROADCAST id={id} on {h} was acknowledged but connection {k2} of read-permitted member {m} received no MESSAGE"));
                        }
                      }
                    }
                  }
                }
              }
            }
            for (k2, n) in &delivered {
              if *n > 1 {
                fails.push(format!("C02: connection {k2} received the same broadcast {n} times"));
              }
            }
            if !acked && !delivered.is_empty() && !closed_with_error {
              // QoS 0 acks first; without any ack deliveries mean the request failed half-way
              fails.push("C02: deliveries without BROADCAST_ACK".into());
            }
          } else {
            for (k2, (fr2, _)) in got {
              if fr2.iter().any(|f| matches!(f.msg, Message::Message(_))) {
                fails.push(format!("C01: connection {k2} received a MESSAGE although no BROADCAST was sent"));
              }
            }
          }

          // ---- C18: refused requests produce no events
          let refused = frames.iter().any(|f| matches!(f.msg, Message::Error(_)))
            && !frames.iter().any(|f| matches!(f.msg, Message::JoinChannelAck(_) | Message::LeaveChannelAck(_)));
          if refused && !*eof {
            for (k2, (fr2, _)) in got {
              if fr2.iter().any(|f| matches!(f.msg, Message::Event(_))) {
                fails.push(format!("C18: refused request produced an EVENT at connection {k2}"));
              }
            }
          }
        }
      },
    }

    // connections the server closed in this step
    for (k, (_, eof)) in got {
      if *eof {
        self.check_cleanup(*k, env, got, &mut fails);
        self.drop_conn(*k);
      }
    }
    // ---- C18: ownership hand-over is announced
    for (frames, _) in got.values() {
      for f in frames {
        if let Message::Event(p) = &f.msg {
          if p.kind.as_ref() == "MEMBER_JOINED" && p.owner == Some(true) {
            if let (Some(c), Some(n)) = (&p.channel, &p.nid) {
              if let (Some(h), Some(u)) = (handler_of(c, &self.domain), user_of(n, &self.domain)) {
                if self.members.get(&h).is_some_and(|s| s.contains(&u)) {
                  self.owner.insert(h, u);
                }
              }
            }
          }
        }
      }
    }
    self.failures.extend(fails);
  }
}
