//! Suite `pressure` (C02 / C13 / C15 / C19, oracle-only): slow consumers behind small pipes while a publisher floods their
//! channel, with a small message pool (`2·max_connections + 128` buffers).  Afterwards the slow consumers read everything.
//! Oracle: every BROADCAST that was acknowledged reaches every member that stays connected, intact and in order, or that
//! member's connection is closed with an ERROR; the publisher and a late-comer are still served.
use std::collections::BTreeMap;
use std::fmt::Write as _;

use narwhal_protocol::Message;

use crate::rng::Rng;
use crate::srv::*;

pub async fn run_suite(seed: u64, cases: usize, only: Option<usize>) -> String {
  let mut master = Rng::new(seed ^ 0x9e55);
  let mut t = String::new();
  let mut fails: Vec<(usize, String)> = Vec::new();
  let mut stats: BTreeMap<String, u64> = BTreeMap::new();
  for case in 0..cases {
    let mut r = master.fork();
    if only.is_some_and(|o| o != case) {
      continue;
    }
    if case % 8 == 5 {
      overflow_case(case, &mut r, &mut fails, &mut t).await;
      *stats.entry("overflow-cases".into()).or_insert(0) += 1;
      continue;
    }
    if case % 8 == 6 {
      sustained_case(case, &mut r, &mut fails, &mut t).await;
      *stats.entry("sustained-cases".into()).or_insert(0) += 1;
      continue;
    }
    let nslow = if case == 0 { 2 } else { r.range(1, 3) as usize };
    let flood = if case == 0 { 300 } else { *r.pick(&[50u32, 140, 200, 300]) };
    let pipe = if case == 0 { 64 } else { *r.pick(&[64usize, 256, 4096]) };
    let mut cfg = SrvCfg::default();
    cfg.max_connections = (nslow + 2) as u32; // publisher + slow consumers + one late-comer
    cfg.max_inflight = 1000;
    cfg.queue = 1000;
    cfg.max_clients = 10;
    cfg.keep_alive_ms = 3_600_000;
    cfg.request_timeout_ms = 3_600_000;
    let mut srv = Srv::new(cfg.clone()).await;
    let _ = writeln!(t, "case {case} slow={nslow} flood={flood} pipe={pipe} pool={}", 2 * cfg.max_connections + 128);
    let mut slow: Vec<usize> = Vec::new();
    for i in 0..nslow {
      let k = srv.open_cap(pipe);
      srv.send(k, format!("CONNECT version=1\nIDENTIFY username=s{i}\nJOIN id=1 channel=!x@localhost\n").as_bytes()).await;
      srv.settle(1).await;
      slow.push(k);
    }
    let mut joined: Vec<usize> = Vec::new();
    for _ in 0..20 {
      srv.settle(1).await;
      let got = srv.collect().await;
      for k in &slow {
        if got.get(k).is_some_and(|(f, _)| f.iter().any(|x| matches!(x.msg, Message::JoinChannelAck(_)))) {
          joined.push(*k);
        }
      }
    }
    for k in &slow {
      if !joined.contains(k) {
        fails.push((case, format!("C15: [pressure-setup] slow consumer {k} could not join")));
      }
    }
    let p = srv.open();
    srv.send(p, b"CONNECT version=1\nIDENTIFY username=pub\nJOIN id=1 channel=!x@localhost\n").await;
    srv.settle(1).await;
    let _ = srv.collect().await;
    // the slow consumers stop reading; the publisher floods
    let mut acked = 0u32;
    for i in 0..flood {
      srv.send(p, format!("BROADCAST id={} channel=!x@localhost length=2\nhi\n", i + 10).as_bytes()).await;
      if i % 20 == 19 {
        srv.settle(1).await;
        acked += drain_one(&mut srv, p).await.iter().filter(|f| matches!(f.msg, Message::BroadcastAck(_))).count() as u32;
      }
    }
    srv.settle(5).await;
    acked += drain_one(&mut srv, p).await.iter().filter(|f| matches!(f.msg, Message::BroadcastAck(_))).count() as u32;
    *stats.entry("broadcasts".into()).or_insert(0) += flood as u64;
    *stats.entry("acked".into()).or_insert(0) += acked as u64;
    // the slow consumers read one pipe-full each and stop again: their writers finish the small batch they were blocked in
    // and start a new one from a long queue
    for k in &slow {
      if let Some(c) = srv.clients.get_mut(k) {
        if let Some(st) = c.stream.as_mut() {
          use tokio::io::AsyncReadExt;
          let mut buf = vec![0u8; pipe];
          for _ in 0..3 {
            if let Ok(Ok(n)) = tokio::time::timeout(std::time::Duration::from_millis(0), st.read(&mut buf)).await {
              c.inbuf.extend_from_slice(&buf[..n]);
            }
            for _ in 0..50 {
              tokio::task::yield_now().await;
            }
          }
        }
      }
    }
    srv.settle(5).await;
    // while the slow consumers are still not reading, everybody else must be served as usual
    srv.send(p, b"CHANNELS id=9998\n").await;
    srv.settle(50).await;
    let fr = drain_one(&mut srv, p).await;
    acked += fr.iter().filter(|f| matches!(f.msg, Message::BroadcastAck(_))).count() as u32;
    if !fr.iter().any(|f| matches!(f.msg, Message::ListChannelsAck(_))) {
      fails.push((case, format!(
        "C15: [slow-consumers-starve-others] with {nslow} member(s) not reading ({flood} frames queued for each, message pool of {} buffers) the publisher's next request is not answered until they read again",
        2 * cfg.max_connections + 128
      )));
    }
    // now the slow consumers read everything that comes, for a long (virtual) while
    let mut received: BTreeMap<usize, (usize, bool, bool)> = BTreeMap::new(); // messages, closed-with-error, eof
    for _round in 0..400 {
      srv.settle(5).await;
      let got = srv.collect().await;
      for k in &slow {
        if let Some((frames, eof)) = got.get(k) {
          let e = received.entry(*k).or_insert((0, false, false));
          e.0 += frames.iter().filter(|f| matches!(f.msg, Message::Message(_)) && f.payload.as_deref() == Some(b"hi")).count();
          e.1 |= frames.iter().any(|f| matches!(f.msg, Message::Error(_)));
          e.2 |= *eof;
        }
      }
    }
    for k in &slow {
      let (n, err, eof) = received.get(k).copied().unwrap_or((0, false, false));
      if (n as u32) < acked && !(err && eof) {
        fails.push((case, format!(
          "C15: [slow-consumer-backlog-lost] {acked} broadcasts were acknowledged; member {k} (pipe {pipe} bytes, reads again after the flood) received {n} of them and was {} — {} slow consumer(s), message pool of {} buffers",
          if eof { "closed without an ERROR" } else { "neither sent the rest nor disconnected" },
          nslow,
          2 * cfg.max_connections + 128
        )));
      }
      *stats.entry("delivered".into()).or_insert(0) += n as u64;
    }
    // the publisher and a new connection are still served
    srv.send(p, b"CHANNELS id=9999\n").await;
    srv.settle(5).await;
    let ok = drain_one(&mut srv, p).await.iter().any(|f| matches!(f.msg, Message::ListChannelsAck(_)));
    if !ok {
      fails.push((case, format!("C13: [pressure-publisher-unanswered] after {nslow} slow consumer(s) read their backlog the publisher's next request is not answered")));
    }
    let late = srv.open();
    srv.send(late, b"CONNECT version=1\n").await;
    srv.settle(5).await;
    let ok2 = drain_one(&mut srv, late).await.iter().any(|f| matches!(f.msg, Message::ConnectAck(_)));
    if !ok2 {
      fails.push((case, "C13: [pressure-newcomer-unanswered] a new connection is not served after the flood".to_string()));
    }
  }
  for (case, f) in &fails {
    let _ = writeln!(t, "oracle-failure case={case} {f}");
  }
  let _ = writeln!(t, "stats {{\"suite\":\"pressure\",\"seed\":{},\"cases\":{},\"ops\":{},\"oracle_failures\":{}}}", seed, cases, crate::js_map(&stats), fails.len());
  t
}

/// A member that stops reading behind a small pipe while its outbound queue (size 4) overflows: every broadcast is still
/// acknowledged to the publisher, every frame still reaches the healthy member in order, and only the stalled member is closed.
async fn overflow_case(case: usize, r: &mut Rng, fails: &mut Vec<(usize, String)>, t: &mut String) {
  let mut cfg = SrvCfg::default();
  cfg.max_connections = 8;
  cfg.max_inflight = 1000;
  cfg.queue = *r.pick(&[2u32, 4, 8]);
  cfg.max_clients = 10;
  cfg.keep_alive_ms = 3_600_000;
  cfg.request_timeout_ms = 3_600_000;
  let mut srv = Srv::new(cfg.clone()).await;
  let n = 40 + r.below(30) as u32;
  let _ = writeln!(t, "case {case} overflow queue={} broadcasts={n}", cfg.queue);
  // fan-out order is the member set's iteration order: two stalled members and two healthy ones make "the members after the
  // stalled one" non-empty whichever it is
  let mut stalled = Vec::new();
  for i in 0..2 {
    let k = srv.open_cap(64);
    srv.send(k, format!("CONNECT version=1\nIDENTIFY username=st{i}\nJOIN id=1 channel=!o@localhost\n").as_bytes()).await;
    // it reads until it has joined, and never again
    let mut joined = false;
    for _ in 0..40 {
      srv.settle(1).await;
      if drain_one(&mut srv, k).await.iter().any(|f| matches!(f.msg, Message::JoinChannelAck(_))) {
        joined = true;
        break;
      }
    }
    if !joined {
      fails.push((case, format!("C15: [pressure-setup] stalled member {k} could not join")));
    }
    stalled.push(k);
  }
  let mut healthy = Vec::new();
  for i in 0..2 {
    let k = srv.open();
    srv.send(k, format!("CONNECT version=1\nIDENTIFY username=h{i}\nJOIN id=1 channel=!o@localhost\n").as_bytes()).await;
    srv.settle(2).await;
    let _ = drain_one(&mut srv, k).await;
    healthy.push(k);
  }
  let p = srv.open();
  srv.send(p, b"CONNECT version=1\nIDENTIFY username=pub\nJOIN id=1 channel=!o@localhost\n").await;
  srv.settle(2).await;
  let _ = drain_one(&mut srv, p).await;
  for k in &healthy {
    let _ = drain_one(&mut srv, *k).await;
  }
  let mut seen: BTreeMap<usize, Vec<String>> = BTreeMap::new();
  for i in 0..n {
    let body = format!("payload-{i:04}-{}", "x".repeat(180));
    srv.send(p, format!("BROADCAST id={} channel=!o@localhost length={}\n{body}\n", i + 10, body.len()).as_bytes()).await;
    srv.settle(1).await;
    let frames = drain_one(&mut srv, p).await;
    let acked = frames.iter().any(|f| matches!(&f.msg, Message::BroadcastAck(a) if a.id == i + 10));
    if !acked {
      let what: Vec<String> = frames.iter().map(|f| f.text.clone()).collect();
      fails.push((case, format!(
        "C15: [overflow-hurts-publisher] broadcast #{i} (queue size {}, two members not reading) was not acknowledged to the publisher; it received {what:?}",
        cfg.queue
      )));
      fails.push((case, format!("C02: [overflow-hurts-publisher] broadcast #{i} was not acknowledged although the publisher did nothing wrong (a stalled member's queue was full)")));
      break;
    }
    for k in &healthy {
      for f in drain_one(&mut srv, *k).await {
        if let Message::Message(_) = &f.msg {
          seen.entry(*k).or_default().push(String::from_utf8_lossy(f.payload.as_deref().unwrap_or(&[])).chars().take(12).collect());
        }
      }
    }
  }
  srv.settle(5).await;
  for k in &healthy {
    for f in drain_one(&mut srv, *k).await {
      if let Message::Message(_) = &f.msg {
        seen.entry(*k).or_default().push(String::from_utf8_lossy(f.payload.as_deref().unwrap_or(&[])).chars().take(12).collect());
      }
    }
  }
  if !fails.iter().any(|(c, _)| *c == case) {
    for k in &healthy {
      let got = seen.get(k).cloned().unwrap_or_default();
      let want: Vec<String> = (0..n).map(|i| format!("payload-{i:04}")).collect();
      if got != want {
        fails.push((case, format!(
          "C15: [overflow-hurts-others] healthy member (connection {k}) received {} of {n} acknowledged broadcasts while two other members' queues overflowed (first missing: {:?})",
          got.len(),
          want.iter().find(|w| !got.contains(w))
        )));
        fails.push((case, format!("C02: [missing-delivery] healthy member (connection {k}) received {} of {n} acknowledged broadcasts", got.len())));
      }
    }
  }
}

/// A consumer that keeps reading, but slower than the publisher sends (64 bytes per broadcast of ~200), behind a small pipe
/// and a small outbound queue, while the traffic never pauses: its queue is never empty when its writer finishes a batch.  It
/// must be disconnected with OUTBOUND_QUEUE_FULL while the traffic is still flowing (not only once the queue has drained), the
/// publisher is acknowledged every time, and the healthy member receives everything in order.
async fn sustained_case(case: usize, r: &mut Rng, fails: &mut Vec<(usize, String)>, t: &mut String) {
  let mut cfg = SrvCfg::default();
  cfg.max_connections = 8;
  cfg.max_inflight = 1000;
  cfg.queue = *r.pick(&[2u32, 4, 8]);
  cfg.max_clients = 10;
  cfg.keep_alive_ms = 3_600_000;
  cfg.request_timeout_ms = 3_600_000;
  let mut srv = Srv::new(cfg.clone()).await;
  let n = 2400 + 2 * r.below(50) as u32; // two broadcasts per step: the publisher is always faster than the slow member
  let sip = 256usize;
  let _ = writeln!(t, "case {case} sustained queue={} broadcasts={n} sip={sip}", cfg.queue);
  let slow = srv.open_cap(256);
  srv.send(slow, b"CONNECT version=1\nIDENTIFY username=slow\nJOIN id=1 channel=!o@localhost\n").await;
  let mut joined = false;
  for _ in 0..40 {
    srv.settle(1).await;
    if drain_one(&mut srv, slow).await.iter().any(|f| matches!(f.msg, Message::JoinChannelAck(_))) {
      joined = true;
      break;
    }
  }
  if !joined {
    fails.push((case, format!("C15: [pressure-setup] slow member {slow} could not join")));
    return;
  }
  let h = srv.open();
  srv.send(h, b"CONNECT version=1\nIDENTIFY username=h0\nJOIN id=1 channel=!o@localhost\n").await;
  srv.settle(2).await;
  let _ = drain_one(&mut srv, h).await;
  let p = srv.open();
  srv.send(p, b"CONNECT version=1\nIDENTIFY username=pub\nJOIN id=1 channel=!o@localhost\n").await;
  srv.settle(2).await;
  let _ = drain_one(&mut srv, p).await;
  let _ = drain_one(&mut srv, h).await;
  // (the slow member's own EVENTs are left in its pipe: it only ever sips)
  let mut seen: Vec<String> = Vec::new();
  let mut slow_bytes: Vec<u8> = Vec::new();
  let mut slow_eof = false;
  let mut closed_at: Option<u32> = None;
  for i in 0..n {
    let body = format!("payload-{i:04}-{}", "x".repeat(180));
    srv.send(p, format!("BROADCAST id={} channel=!o@localhost length={}\n{body}\n", i + 10, body.len()).as_bytes()).await;
    if i % 2 == 0 {
      continue;
    }
    srv.settle(1).await;
    let frames = drain_one(&mut srv, p).await;
    if !(frames.iter().any(|f| matches!(&f.msg, Message::BroadcastAck(a) if a.id == i + 10)) && frames.iter().any(|f| matches!(&f.msg, Message::BroadcastAck(a) if a.id == i + 9))) {
      let what: Vec<String> = frames.iter().map(|f| f.text.clone()).collect();
      fails.push((case, format!("C15: [overflow-hurts-publisher] broadcast #{i} (queue size {}, one member reading slowly) was not acknowledged to the publisher; it received {what:?}", cfg.queue)));
      return;
    }
    for f in drain_one(&mut srv, h).await {
      if let Message::Message(_) = &f.msg {
        seen.push(String::from_utf8_lossy(f.payload.as_deref().unwrap_or(&[])).chars().take(12).collect());
      }
    }
    // the slow member sips
    if !slow_eof {
      if let Some(c) = srv.clients.get_mut(&slow) {
        if let Some(s) = c.stream.as_mut() {
          use tokio::io::AsyncReadExt;
          let mut buf = vec![0u8; sip];
          match tokio::time::timeout(std::time::Duration::from_millis(0), s.read(&mut buf)).await {
            Ok(Ok(0)) | Ok(Err(_)) => slow_eof = true,
            Ok(Ok(m)) => slow_bytes.extend_from_slice(&buf[..m]),
            Err(_) => {},
          }
        }
      }
      if slow_eof && closed_at.is_none() {
        closed_at = Some(i);
      }
    }
  }
  // the traffic stops; the slow member now reads everything that is still coming
  for _ in 0..400 {
    if slow_eof {
      break;
    }
    srv.settle(1).await;
    if let Some(c) = srv.clients.get_mut(&slow) {
      if let Some(s) = c.stream.as_mut() {
        use tokio::io::AsyncReadExt;
        let mut buf = vec![0u8; 65536];
        match tokio::time::timeout(std::time::Duration::from_millis(0), s.read(&mut buf)).await {
          Ok(Ok(0)) | Ok(Err(_)) => slow_eof = true,
          Ok(Ok(m)) => slow_bytes.extend_from_slice(&buf[..m]),
          Err(_) => {},
        }
      }
    }
  }
  let text = String::from_utf8_lossy(&slow_bytes).to_string();
  let told = text.contains("OUTBOUND_QUEUE_FULL");
  // which broadcasts reached it, in order
  let got: Vec<u32> = text.match_indices("payload-").filter_map(|(i, _)| text.get(i + 8..i + 12).and_then(|d| d.parse::<u32>().ok())).collect();
  let first_gap = got.iter().enumerate().position(|(i, v)| *v != i as u32);
  let after_gap = first_gap.map(|g| got.len() - g).unwrap_or(0);
  let _ = writeln!(t, "  slow member: {} bytes read, eof={slow_eof} closed-during-traffic-at={closed_at:?} told={told} frames={} first_gap={first_gap:?} after_gap={after_gap}", slow_bytes.len(), got.len());
  if closed_at.is_none() && first_gap.is_some_and(|g| g < 60) {
    // (with the unchanged code the close branch of the connection loop is polled after every batch, i.e. dozens of times during
    // this traffic, and taken with probability 1/2 each time)
    fails.push((case, format!(
      "C15: [slow-consumer-kept-alive] a member reading at most {sip} bytes per step while ~420 bytes per step were published (outbound queue {}) first lost a frame at #{} but was still being served {} steps later, for as long as the traffic lasted ({after_gap} more frames, with silent gaps); it was disconnected only once the traffic stopped",
      cfg.queue,
      first_gap.unwrap_or(0),
      n / 2
    )));
  } else if !slow_eof || !told {
    fails.push((case, format!(
      "C15: [slow-consumer-never-disconnected] a member reading at most {sip} bytes per step behind a 256-byte pipe (outbound queue {}) was offered {n} broadcasts of ~200 bytes, two per step; its queue overflowed but it was never disconnected with OUTBOUND_QUEUE_FULL (eof={slow_eof}, told={told})",
      cfg.queue
    )));
  }
  srv.settle(5).await;
  for f in drain_one(&mut srv, h).await {
    if let Message::Message(_) = &f.msg {
      seen.push(String::from_utf8_lossy(f.payload.as_deref().unwrap_or(&[])).chars().take(12).collect());
    }
  }
  let want: Vec<String> = (0..n).map(|i| format!("payload-{i:04}")).collect();
  if seen != want {
    fails.push((case, format!("C15: [overflow-hurts-others] healthy member received {} of {n} acknowledged broadcasts while another member read slowly", seen.len())));
    fails.push((case, format!("C02: [missing-delivery] healthy member received {} of {n} acknowledged broadcasts", seen.len())));
  }
}

async fn drain_one(srv: &mut Srv, k: usize) -> Vec<RFrame> {
  // read only connection k (the slow consumers must not be read by accident)
  let mut out = Vec::new();
  if let Some(c) = srv.clients.get_mut(&k) {
    if let Some(s) = c.stream.as_mut() {
      use tokio::io::AsyncReadExt;
      let mut buf = [0u8; 65536];
      loop {
        match tokio::time::timeout(std::time::Duration::from_millis(0), s.read(&mut buf)).await {
          Ok(Ok(0)) | Ok(Err(_)) | Err(_) => break,
          Ok(Ok(n)) => c.inbuf.extend_from_slice(&buf[..n]),
        }
      }
    }
    out = parse_frames(&mut c.inbuf);
  }
  out
}
