//! Suite `s2m` (C08, C09, C16): the real `S2mClient` (modulator/src/client.rs on the real request engine
//! common/src/client.rs) against a scripted S2M peer on the other end of a Unix socket pair, under virtual time.
//! Every request is answered by one scripted reply shape; what the client concludes is compared with the Lean
//! mapping (`Narwhal.S2m`).  Late, payload-bearing replies to earlier (timed-out) requests are injected before the
//! proper reply, so that mis-attribution and un-drained payloads show up as a wrong verdict for the *next* request.
use std::fmt::Write as _;
use std::sync::{Arc, Mutex};
use std::time::Duration;

use narwhal_modulator::Modulator;
use narwhal_modulator::client::S2mClient;
use narwhal_modulator::modulator::*;
use narwhal_protocol::{Event, EventKind, Message, Nid, deserialize};
use narwhal_util::conn::{Dialer, Stream};
use narwhal_util::pool::Pool;
use tokio::io::{AsyncReadExt, AsyncWriteExt};
use tokio::net::UnixStream;
use tokio_util::compat::TokioAsyncReadCompatExt;

use crate::rng::{Rng, hex};

struct PairDialer(Mutex<Vec<UnixStream>>);
#[async_trait::async_trait]
impl Dialer for PairDialer {
  type Stream = Stream;
  async fn dial(&self) -> anyhow::Result<Stream> {
    match self.0.lock().unwrap().pop() {
      Some(s) => Ok(Stream::Unix(s.compat())),
      None => anyhow::bail!("no more connections"),
    }
  }
}

struct Peer {
  s: UnixStream,
  buf: Vec<u8>,
}

impl Peer {
  /// next frame the client wrote: (message, payload)
  async fn next(&mut self, wait_ms: u64) -> Option<(Message, Option<Vec<u8>>)> {
    let deadline = tokio::time::Instant::now() + Duration::from_millis(wait_ms);
    loop {
      if let Some(pos) = self.buf.iter().position(|b| *b == b'\n') {
        let line = self.buf[..pos].to_vec();
        if let Ok(m) = deserialize(std::io::Cursor::new(&line[..])) {
          if let Some(pi) = m.payload_info() {
            let need = pos + 1 + pi.length + 1;
            if self.buf.len() >= need {
              let p = self.buf[pos + 1..pos + 1 + pi.length].to_vec();
              self.buf.drain(..need);
              return Some((m, Some(p)));
            }
          } else {
            self.buf.drain(..=pos);
            return Some((m, None));
          }
        } else {
          self.buf.drain(..=pos);
          continue;
        }
      }
      let mut b = [0u8; 4096];
      match tokio::time::timeout_at(deadline, self.s.read(&mut b)).await {
        Ok(Ok(n)) if n > 0 => self.buf.extend_from_slice(&b[..n]),
        _ => return None,
      }
    }
  }
  async fn send(&mut self, b: &[u8]) {
    let _ = self.s.write_all(b).await;
  }
}

fn corr_id(m: &Message) -> u32 {
  m.correlation_id().unwrap_or(0)
}

const TIMEOUT_MS: u64 = 200;

async fn new_link(ops: &str) -> Option<(Arc<S2mClient>, Peer)> {
  let (a, b) = UnixStream::pair().ok()?;
  let mut cfg = narwhal_modulator::config::S2mClientConfig::default();
  cfg.network = "unix".into();
  cfg.socket_path = "/nonexistent".into();
  cfg.max_idle_connections = 1;
  cfg.heartbeat_interval = Duration::from_secs(3600);
  cfg.connect_timeout = Duration::from_millis(500);
  cfg.timeout = Duration::from_millis(TIMEOUT_MS);
  cfg.payload_read_timeout = Duration::from_millis(100);
  cfg.backoff_initial_delay = Duration::from_millis(1);
  cfg.backoff_max_delay = Duration::from_millis(2);
  cfg.backoff_max_retries = 1;
  let client = Arc::new(S2mClient::new_with_dialer(cfg, Arc::new(PairDialer(Mutex::new(vec![a])))).ok()?);
  let mut peer = Peer { s: b, buf: Vec::new() };
  // the handshake is driven by the first use of the client
  let c2 = client.clone();
  let h = tokio::task::spawn_local(async move { c2.operations().await.map(|_| ()) });
  let hello = peer.next(1000).await?;
  if !matches!(hello.0, Message::S2mConnect(_)) {
    return None;
  }
  let n_ops = ops.split(' ').count();
  peer
    .send(
      format!(
        "S2M_CONNECT_ACK application_protocol=TEST/1.0 heartbeat_interval=3600000 max_inflight_requests=8 max_message_size=4096 max_payload_size=1024 operations:{n_ops}={ops}\n"
      )
      .as_bytes(),
    )
    .await;
  let _ = h.await;
  Some((client, peer))
}


/// Pooled mode (the production default, `max_idle_connections > 1`): the link is lost while the client is idle; the next
/// request must end in a result — an error, or an answer over a new link — and never in a panic or a hang
/// (regression of DESIGN D30: `detach` used `block_in_place`, which panics on the server's current-thread runtimes).
async fn pooled_link_loss(fails: &mut Vec<String>, t: &mut String) {
  let (a1, b1) = match UnixStream::pair() { Ok(p) => p, Err(_) => return };
  let (a2, b2) = match UnixStream::pair() { Ok(p) => p, Err(_) => return };
  let mut cfg = narwhal_modulator::config::S2mClientConfig::default();
  cfg.network = "unix".into();
  cfg.socket_path = "/nonexistent".into();
  cfg.max_idle_connections = 4;
  cfg.heartbeat_interval = Duration::from_secs(3600);
  cfg.connect_timeout = Duration::from_millis(500);
  cfg.timeout = Duration::from_millis(TIMEOUT_MS);
  cfg.payload_read_timeout = Duration::from_millis(100);
  cfg.backoff_initial_delay = Duration::from_millis(1);
  cfg.backoff_max_delay = Duration::from_millis(2);
  cfg.backoff_max_retries = 2;
  // `dial` pops from the end: a1 first, then a2
  let Ok(client) = S2mClient::new_with_dialer(cfg, Arc::new(PairDialer(Mutex::new(vec![a2, a1])))) else { return };
  let client = Arc::new(client);
  let ack = "S2M_CONNECT_ACK application_protocol=TEST/1.0 heartbeat_interval=3600000 max_inflight_requests=8 max_message_size=4096 max_payload_size=1024 operations:1=auth\n";
  let mut p1 = Peer { s: b1, buf: Vec::new() };
  let mut p2 = Peer { s: b2, buf: Vec::new() };
  // first use: handshake on link 1
  let c = client.clone();
  let h = tokio::task::spawn_local(async move { c.operations().await.map(|_| ()) });
  if !matches!(p1.next(1000).await, Some((Message::S2mConnect(_), _))) {
    return;
  }
  p1.send(ack.as_bytes()).await;
  let _ = h.await;
  // the modulator goes away while the client is idle
  drop(p1);
  tokio::time::sleep(Duration::from_millis(5)).await;
  // the next two uses: whatever they conclude, they must conclude
  for round in 0..2 {
    let c = client.clone();
    let h = tokio::task::spawn_local(async move { c.authenticate(AuthRequest { token: "tok".into() }).await.map(|_| ()) });
    // serve link 2 if the client dials it
    let served = tokio::time::timeout(Duration::from_millis(5 * TIMEOUT_MS), async {
      loop {
        match p2.next(50).await {
          Some((Message::S2mConnect(_), _)) => p2.send(ack.as_bytes()).await,
          Some((Message::S2mAuth(q), _)) => {
            p2.send(format!("S2M_AUTH_ACK id={} succeeded=true username=u\n", q.id).as_bytes()).await;
          },
          _ => {},
        }
        if h.is_finished() {
          break;
        }
      }
    })
    .await;
    let outcome = if served.is_err() {
      "hang".to_string()
    } else {
      match h.await {
        Ok(Ok(())) => "ok".to_string(),
        Ok(Err(_)) => "error".to_string(),
        Err(e) if e.is_panic() => "panic".to_string(),
        Err(_) => "cancelled".to_string(),
      }
    };
    let _ = writeln!(t, "# pooled link loss, use {round}: {outcome}");
    if outcome == "panic" || outcome == "hang" {
      fails.push(format!(
        "C16: [pooled-link-loss] after the modulator link was lost while idle (pooled client, max_idle_connections=4), the next delegated request ended in a {outcome} instead of a result"
      ));
      break;
    }
  }
}

/// Pooled mode: the modulator accepts the connection but never answers `S2M_CONNECT` (a hung process). The call that needed the
/// link must end — in an error — within a few connect timeouts, and must not keep later calls from using a healthy link.
async fn pooled_black_hole(fails: &mut Vec<String>, t: &mut String) {
  let (a1, b1) = match UnixStream::pair() { Ok(p) => p, Err(_) => return };
  let (a2, b2) = match UnixStream::pair() { Ok(p) => p, Err(_) => return };
  let mut cfg = narwhal_modulator::config::S2mClientConfig::default();
  cfg.network = "unix".into();
  cfg.socket_path = "/nonexistent".into();
  cfg.max_idle_connections = 4;
  cfg.heartbeat_interval = Duration::from_secs(3600);
  cfg.connect_timeout = Duration::from_millis(300);
  cfg.timeout = Duration::from_millis(TIMEOUT_MS);
  cfg.payload_read_timeout = Duration::from_millis(100);
  cfg.backoff_initial_delay = Duration::from_millis(1);
  cfg.backoff_max_delay = Duration::from_millis(2);
  cfg.backoff_max_retries = 1;
  let Ok(client) = S2mClient::new_with_dialer(cfg, Arc::new(PairDialer(Mutex::new(vec![a2, a1])))) else { return };
  let client = Arc::new(client);
  let ack = "S2M_CONNECT_ACK application_protocol=TEST/1.0 heartbeat_interval=3600000 max_inflight_requests=8 max_message_size=4096 max_payload_size=1024 operations:1=auth\n";
  let mut p1 = Peer { s: b1, buf: Vec::new() };
  let mut p2 = Peer { s: b2, buf: Vec::new() };
  // first use: link 1 swallows the handshake
  let c = client.clone();
  let h1 = tokio::task::spawn_local(async move { c.operations().await.map(|_| ()) });
  let _ = p1.next(200).await;
  let first = tokio::time::timeout(Duration::from_millis(3_000), h1).await;
  let outcome1 = match &first {
    Err(_) => "hang",
    Ok(Ok(Ok(()))) => "ok",
    Ok(Ok(Err(_))) => "error",
    Ok(Err(_)) => "panic",
  };
  let _ = writeln!(t, "# pooled black hole, first use: {outcome1}");
  if outcome1 == "hang" || outcome1 == "panic" {
    for tag in ["C13", "C16"] {
      fails.push(format!(
        "{tag}: [handshake-black-hole] the modulator accepted the link but never answered S2M_CONNECT (connect_timeout 300 ms): the call that needed the link ended in a {outcome1} after 3 s instead of an error"
      ));
    }
  }
  // second use: a healthy link is available
  let c = client.clone();
  let h2 = tokio::task::spawn_local(async move { c.operations().await.map(|_| ()) });
  let served = tokio::time::timeout(Duration::from_millis(3_000), async {
    loop {
      if let Some((Message::S2mConnect(_), _)) = p2.next(50).await {
        p2.send(ack.as_bytes()).await;
      }
      if h2.is_finished() {
        break;
      }
    }
  })
  .await;
  let outcome2 = if served.is_err() { "hang" } else { "done" };
  let _ = writeln!(t, "# pooled black hole, second use: {outcome2}");
  if outcome2 == "hang" {
    for tag in ["C13", "C16"] {
      fails.push(format!("{tag}: [handshake-black-hole] after a hung handshake the next call did not conclude within 3 s although a healthy link was available"));
    }
  }
  drop(p1);
}

pub async fn run_suite(seed: u64, cases: usize) -> String {
  let mut r = Rng::new(seed ^ 0x52a);
  let mut t = String::new();
  let mut fails: Vec<String> = Vec::new();
  let pool = Pool::new(64, 1024);
  let ops = "auth fwd-broadcast-payload fwd-event send-private-payload";
  let mut link = new_link(ops).await;
  let _ = writeln!(t, "case 0");
  let mut n = 0u64;
  // id of an earlier request that timed out on the current link (a late reply to it can be injected)
  let mut stale: Option<u32> = None;
  let mut panics_seen = crate::PANICS.load(std::sync::atomic::Ordering::SeqCst);
  for _ in 0..cases {
    if link.is_none() {
      link = new_link(ops).await;
      stale = None;
      if link.is_none() {
        fails.push("C16: [s2m-link] the S2M client could not establish a link to the scripted peer".into());
        break;
      }
    }
    let (client, peer) = link.as_mut().unwrap();
    n += 1;
    let what = *r.pick(&["auth", "auth", "payload", "payload", "payload", "event"]);
    // ---- the reply shape
    let shape: String = match what {
      "auth" => match r.below(10) {
        0..=5 => {
          let s = r.chance(1, 2);
          let u = if r.chance(2, 3) { (*r.pick(&["alice", "bob", "x"])).to_string() } else { "-".into() };
          let c = if r.chance(1, 3) { (*r.pick(&["ch1", "ch2"])).to_string() } else { "-".into() };
          format!("authack:{}:{u}:{c}", s as u8)
        },
        6 => "error".into(),
        7 => "other".into(),
        _ => "nothing".into(),
      },
      "payload" => match r.below(12) {
        0..=2 => format!("payack:{}:none", r.chance(2, 3) as u8),
        3..=5 => {
          let len = *r.pick(&[1usize, 3, 17]);
          let tag = r.next();
          let p: Vec<u8> = (0..len).map(|i| match (tag >> i) & 3 { 0 => b'\n', _ => (tag.wrapping_mul(i as u64 + 7) >> 11) as u8 }).collect();
          format!("payack:{}:intact:{}", r.chance(3, 4) as u8, hex(&p))
        },
        6 | 7 => format!("payack:{}:broken", r.chance(3, 4) as u8),
        8 => "error".into(),
        9 => "other".into(),
        _ => "nothing".into(),
      },
      _ => match r.below(6) {
        0..=2 => "evack".into(),
        3 => "error".into(),
        4 => "other".into(),
        _ => "nothing".into(),
      },
    };
    // ---- issue the request on the real client
    let c2 = client.clone();
    let payload = format!("payload-{n}").into_bytes();
    let pool2 = pool.clone();
    let what2 = what.to_string();
    let pl = payload.clone();
    let task = tokio::task::spawn_local(async move {
      match what2.as_str() {
        "auth" => match c2.authenticate(AuthRequest { token: "tok".into() }).await {
          Ok(AuthResponse { result: AuthResult::Success { username } }) => format!("success:{username}"),
          Ok(AuthResponse { result: AuthResult::Continue { challenge } }) => format!("continue:{challenge}"),
          Ok(AuthResponse { result: AuthResult::Failure }) => "failure".into(),
          Err(_) => "err".into(),
        },
        "payload" => {
          let mut b = pool2.acquire_buffer().await;
          b.as_mut_slice()[..pl.len()].copy_from_slice(&pl);
          let req = ForwardBroadcastPayloadRequest { payload: b.freeze(pl.len()), from: Nid::try_from(narwhal_util::string_atom::StringAtom::from("alice@localhost")).unwrap(), channel_handler: "c1".into() };
          match c2.forward_broadcast_payload(req).await {
            Ok(resp) => match resp.result {
              ForwardBroadcastPayloadResult::Valid => "valid".into(),
              ForwardBroadcastPayloadResult::ValidWithAlteration { altered_payload } => format!("altered:{}", hex(altered_payload.as_slice())),
              ForwardBroadcastPayloadResult::Invalid => "invalid".into(),
            },
            Err(_) => "err".into(),
          }
        },
        _ => {
          let ev = Event::new(EventKind::MemberJoined).with_channel("!c1@localhost".into()).with_nid("alice@localhost".into()).with_owner(false);
          match c2.forward_event(ForwardEventRequest { event: ev }).await {
            Ok(_) => "ok".into(),
            Err(_) => "err".into(),
          }
        },
      }
    });
    // ---- the scripted peer
    let req = peer.next(TIMEOUT_MS / 2).await;
    let mut link_broken = false;
    match req {
      None => {
        // the client did not even write the request (no permit, dead link)
      },
      Some((m, got_payload)) => {
        let id = corr_id(&m);
        // C08: the modulator is shown the exact payload
        if what == "payload" && got_payload.as_deref() != Some(&payload[..]) {
          fails.push(format!("C08: [forwarded-bytes] the modulator was sent {:?} instead of the publisher's payload", got_payload.map(|p| hex(&p))));
        }
        // a late, payload-bearing reply to an earlier timed-out request first (must be dropped whole)
        if let Some(old) = stale.take() {
          if r.chance(1, 2) {
            let junk = format!("S2M_FORWARD_BROADCAST_PAYLOAD_ACK id={id} valid=false\n");
            let mut late = format!("S2M_FORWARD_BROADCAST_PAYLOAD_ACK id={old} altered_payload=true altered_payload_length={} valid=true\n", junk.len()).into_bytes();
            late.extend_from_slice(junk.as_bytes());
            late.push(b'\n');
            peer.send(&late).await;
          }
        }
        let parts: Vec<&str> = shape.split(':').collect();
        match parts[0] {
          "authack" => {
            let mut f = format!("S2M_AUTH_ACK id={id}");
            if parts[3] != "-" {
              f.push_str(&format!(" challenge={}", parts[3]));
            }
            f.push_str(&format!(" succeeded={}", parts[1] == "1"));
            if parts[2] != "-" {
              f.push_str(&format!(" username={}", parts[2]));
            }
            f.push('\n');
            peer.send(f.as_bytes()).await;
          },
          "payack" => {
            let valid = parts[1] == "1";
            match parts[2] {
              "none" => peer.send(format!("S2M_FORWARD_BROADCAST_PAYLOAD_ACK id={id} valid={valid}\n").as_bytes()).await,
              "intact" => {
                let p: Vec<u8> = (0..parts[3].len() / 2).map(|i| u8::from_str_radix(&parts[3][2 * i..2 * i + 2], 16).unwrap()).collect();
                let mut f = format!("S2M_FORWARD_BROADCAST_PAYLOAD_ACK id={id} altered_payload=true altered_payload_length={} valid={valid}\n", p.len()).into_bytes();
                f.extend_from_slice(&p);
                f.push(b'\n');
                peer.send(&f).await;
              },
              _ => {
                // announced, but the bytes never arrive intact
                if r.chance(1, 4) {
                  // announced longer than the negotiated max_payload_size (1024): the attachment cannot be taken; whatever the
                  // client does about it, its bytes — here a forged success for an AUTH that is in flight — are not protocol
                  let c3 = client.clone();
                  let probe_task = tokio::task::spawn_local(async move {
                    tokio::time::timeout(Duration::from_millis(3 * TIMEOUT_MS), c3.authenticate(AuthRequest { token: "probe".into() })).await
                  });
                  let forged_id = match peer.next(TIMEOUT_MS / 2).await {
                    Some((pm, _)) => corr_id(&pm),
                    None => id.wrapping_add(1),
                  };
                  let mut body = format!("S2M_AUTH_ACK id={forged_id} succeeded=true username=mallory\n").into_bytes();
                  body.resize(1100, b'.');
                  let mut f = format!("S2M_FORWARD_BROADCAST_PAYLOAD_ACK id={id} altered_payload=true altered_payload_length=1100 valid={valid}\n").into_bytes();
                  f.extend_from_slice(&body);
                  f.push(b'\n');
                  peer.send(&f).await;
                  if let Ok(Ok(Ok(AuthResponse { result: AuthResult::Success { username } }))) = probe_task.await {
                    for tag in ["C09", "C16"] {
                      fails.push(format!(
                        "{tag}: [attachment-parsed-as-protocol] a reply's attachment exceeded max_payload_size; a concurrent AUTH was then completed as success({username}) by bytes of that attachment although the modulator never answered it"
                      ));
                    }
                  }
                  link_broken = true;
                } else {
                let mut f = format!("S2M_FORWARD_BROADCAST_PAYLOAD_ACK id={id} altered_payload=true altered_payload_length=9 valid={valid}\n").into_bytes();
                match r.below(3) {
                  0 => f.extend_from_slice(b"123456789X"), // wrong terminator
                  1 if r.chance(1, 2) => {
                    // the attachment stalls past payload_read_timeout and past the request's own timeout; another request is
                    // then issued, and only then the rest of the attachment arrives: it is still attachment, not protocol
                    let mut f2 = format!("S2M_FORWARD_BROADCAST_PAYLOAD_ACK id={id} altered_payload=true altered_payload_length=90 valid={valid}\n").into_bytes();
                    f2.extend_from_slice(b"0123456789");
                    peer.send(&f2).await;
                    tokio::time::sleep(Duration::from_millis(TIMEOUT_MS + 20)).await;
                    let c3 = client.clone();
                    let probe_task = tokio::task::spawn_local(async move {
                      tokio::time::timeout(Duration::from_millis(3 * TIMEOUT_MS), c3.authenticate(AuthRequest { token: "probe".into() })).await
                    });
                    let forged_id = match peer.next(TIMEOUT_MS / 4).await {
                      Some((pm, _)) => Some(corr_id(&pm)),
                      None => None,
                    };
                    if let Some(forged_id) = forged_id {
                      let mut rest = format!("\nS2M_AUTH_ACK id={forged_id} succeeded=true username=mallory\n").into_bytes();
                      rest.resize(80, b'.');
                      rest.push(b'\n');
                      peer.send(&rest).await;
                    }
                    let pres = probe_task.await;
                    if std::env::var("S2M_TRACE").is_ok() {
                      eprintln!("stall: probe written={} result {:?}", forged_id.is_some(), pres.as_ref().map(|r| r.as_ref().map(|x| x.as_ref().map(|y| format!("{:?}", y.result)).map_err(|e| e.to_string()))));
                    }
                    if let Ok(Ok(Ok(AuthResponse { result: AuthResult::Success { username } }))) = pres {
                      for tag in ["C09", "C16"] {
                        fails.push(format!(
                          "{tag}: [attachment-parsed-as-protocol] a reply's attachment stalled past payload_read_timeout; when its remaining bytes arrived a later AUTH was completed as success({username}) by them although the modulator never answered it"
                        ));
                      }
                    }
                    f.clear();
                  },
                  1 => f.extend_from_slice(b"1234"),       // stalls past payload_read_timeout
                  _ => f.extend_from_slice(b"12"),         // and the link is lost
                }
                if !f.is_empty() {
                  peer.send(&f).await;
                }
                link_broken = true;
                }
              },
            }
          },
          "evack" => peer.send(format!("S2M_FORWARD_EVENT_ACK id={id}\n").as_bytes()).await,
          "error" => peer.send(format!("ERROR id={id} reason=INTERNAL_SERVER_ERROR\n").as_bytes()).await,
          "other" => peer.send(format!("S2M_MOD_DIRECT_ACK id={id} valid=true\n").as_bytes()).await,
          _ => {
            // nothing for this id: sometimes an answer to an id nobody asked about
            if r.chance(1, 2) {
              peer.send(format!("S2M_AUTH_ACK id={} succeeded=true username=mallory\n", id.wrapping_add(1000)).as_bytes()).await;
            }
            stale = Some(id);
          },
        }
      },
    }
    let res = match tokio::time::timeout(Duration::from_millis(5 * TIMEOUT_MS), task).await {
      Ok(Ok(s)) => s,
      Ok(Err(_)) => "PANIC".into(),
      Err(_) => {
        fails.push(format!("C16: [never-completes] a delegated {what} request did not complete within 5 x its timeout (reply shape {shape})"));
        "hang".into()
      },
    };
    // no reply shape may make a task of the client engine panic: in the real server the panic hook ends the process
    let panics_now = crate::PANICS.load(std::sync::atomic::Ordering::SeqCst);
    if panics_now > panics_seen {
      panics_seen = panics_now;
      for tag in ["C13", "C16", "C08"] {
        fails.push(format!(
          "{tag}: [engine-panic] a task of the client engine panicked while handling the reply shape `{shape}` to a {what} request: the request fails closed, but the server's panic hook ends the whole process"
        ));
      }
    }
    // ---- implementation-only oracles (the property statements, independent of the Lean mapping)
    {
      let sp: Vec<&str> = shape.split(':').collect();
      if let Some(u) = res.strip_prefix("success:") {
        if !(sp[0] == "authack" && sp[1] == "1" && sp[2] == u) {
          fails.push(format!("C09: [s2m-auth-not-positive] the S2M client reported Success({u}) for the reply `{shape}`"));
        }
      }
      if res == "valid" && !(sp[0] == "payack" && sp[1] == "1" && sp[2] == "none") {
        fails.push(format!("C08: [s2m-valid-not-positive] the S2M client reported Valid for the reply `{shape}`"));
      }
      if let Some(h) = res.strip_prefix("altered:") {
        if !(sp[0] == "payack" && sp[1] == "1" && sp[2] == "intact" && sp[3] == h) {
          fails.push(format!("C08: [s2m-altered-not-faithful] the S2M client reported an alteration to {h} for the reply `{shape}`"));
        }
      }
      let positive = shape == "evack" || (sp[0] == "authack" && sp[1] == "1" && sp[2] != "-") || shape.starts_with("payack:1:none") || shape.starts_with("payack:1:intact");
      let got_positive = res == "ok" || res.starts_with("success:") || res == "valid" || res.starts_with("altered:");
      if positive && !got_positive {
        fails.push(format!("C16: [not-completed-by-own-reply] the peer answered the {what} request with `{shape}` but the client concluded `{res}`"));
      }
    }
    let _ = writeln!(t, "s2m {what} {shape}\nimpl {res}");
    if link_broken || res == "hang" {
      // after a broken frame the byte stream is out of step: start a fresh link
      link = None;
    }
  }
  pooled_link_loss(&mut fails, &mut t).await;
  pooled_black_hole(&mut fails, &mut t).await;
  for f in &fails {
    let _ = writeln!(t, "oracle-failure case=0 {f}");
  }
  let _ = writeln!(t, "stats {{\"suite\":\"s2m\",\"seed\":{seed},\"requests\":{n},\"oracle_failures\":{}}}", fails.len());
  t
}
