//! The real C2S server stack, in-process: `C2sConnManager::run_connection` over `tokio::io::duplex`
//! on a current-thread runtime with paused (virtual) time, with a scripted in-process `Modulator`.
use std::collections::BTreeMap;
use std::io::Cursor;
use std::sync::{Arc, Mutex};
use std::time::Duration;

use narwhal_modulator::modulator::*;
use narwhal_protocol::{Message, deserialize, serialize};
use narwhal_server::c2s;
use narwhal_server::channel::ChannelManager;
use narwhal_server::notifier::Notifier;
use narwhal_server::router::GlobalRouter;
use narwhal_util::pool::{Pool, PoolBuffer};
use narwhal_util::string_atom::StringAtom;
use tokio::io::{AsyncReadExt, AsyncWriteExt, DuplexStream};
use tokio_util::compat::TokioAsyncReadCompatExt;

use crate::rng::hex;

#[derive(Clone, Debug)]
pub enum VerdictS {
  Valid,
  Altered(Vec<u8>),
  Invalid,
  Failed,
  /// the modulator is unreachable: every call fails, `operations()` included
  Down,
}

#[derive(Clone, Debug)]
pub enum AuthS {
  Success(String),
  Continue(String),
  Failure,
  Failed,
}

/// What the scripted modulator answers until told otherwise, and what it was asked.
#[derive(Debug)]
pub struct ModScript {
  pub ops: Operations,
  pub protocol: String,
  pub ev_ok: bool,
  /// the announcement of a new owner (MEMBER_JOINED owner=true) is acknowledged
  pub handover_ok: bool,
  pub verdict: VerdictS,
  pub auth: AuthS,
  pub direct: Option<bool>,
  /// log of calls: ("auth", token) / ("payload", from|channel|hex) / ("event", kind|channel|nid|owner) / ("direct", from|hex)
  pub calls: Vec<(String, String)>,
  /// latency control: while `hold` is set every call parks until the harness releases it (`Some(true)`: answer as
  /// scripted, `Some(false)`: fail) — the real handler is suspended inside the modulator call meanwhile
  /// the modulator is unreachable: every call fails, `operations()` included
  pub down: bool,
  pub hold: bool,
  /// when non-empty only calls whose description starts with this prefix are parked
  pub hold_prefix: String,
  pub parked: Vec<(String, tokio::sync::oneshot::Sender<bool>)>,
}

#[derive(Debug)]
pub struct ScriptedModulator {
  pub script: Arc<Mutex<ModScript>>,
  pool: Pool,
}

impl ScriptedModulator {
  pub fn new(ops: Operations, max_payload: usize) -> Self {
    ScriptedModulator {
      script: Arc::new(Mutex::new(ModScript {
        ops,
        protocol: "TEST/1.0".into(),
        ev_ok: true,
        handover_ok: true,
        verdict: VerdictS::Valid,
        auth: AuthS::Failure,
        direct: Some(true),
        calls: Vec::new(),
        down: false,
        hold: false,
        hold_prefix: String::new(),
        parked: Vec::new(),
      })),
      pool: Pool::new(64, max_payload.max(1)),
    }
  }
  /// parks the calling handler while `hold` is set; `false` = the harness decided that this call fails
  async fn gate(&self, what: String) -> bool {
    let rx = {
      let mut s = self.script.lock().unwrap();
      if !s.hold || !what.starts_with(s.hold_prefix.as_str()) {
        return true;
      }
      let (tx, rx) = tokio::sync::oneshot::channel();
      s.parked.push((what, tx));
      rx
    };
    rx.await.unwrap_or(false)
  }
  fn unreachable(&self) -> bool {
    self.script.lock().unwrap().down
  }
  pub fn set_hold(&self, hold: bool) {
    self.script.lock().unwrap().hold = hold;
  }
  pub fn parked(&self) -> Vec<String> {
    self.script.lock().unwrap().parked.iter().map(|p| p.0.clone()).collect()
  }
  /// parked calls whose handler is still alive (a cancelled request task drops its receiver); dead ones are forgotten
  pub fn parked_live(&self) -> usize {
    let mut s = self.script.lock().unwrap();
    s.parked.retain(|p| !p.1.is_closed());
    s.parked.len()
  }
  /// lets the `i`-th parked call return (ok = as scripted, !ok = error)
  pub fn release(&self, i: usize, ok: bool) {
    let p = {
      let mut s = self.script.lock().unwrap();
      if i < s.parked.len() { Some(s.parked.remove(i)) } else { None }
    };
    if let Some((_, tx)) = p {
      let _ = tx.send(ok);
    }
  }
  async fn buffer(&self, bytes: &[u8]) -> PoolBuffer {
    let mut b = self.pool.acquire_buffer().await;
    b.as_mut_slice()[..bytes.len()].copy_from_slice(bytes);
    b.freeze(bytes.len())
  }
}

#[async_trait::async_trait]
impl narwhal_modulator::Modulator for ScriptedModulator {
  async fn protocol_name(&self) -> anyhow::Result<StringAtom> {
    if self.unreachable() {
      anyhow::bail!("modulator unreachable (scripted)");
    }
    Ok(self.script.lock().unwrap().protocol.as_str().into())
  }
  async fn operations(&self) -> anyhow::Result<Operations> {
    if self.unreachable() {
      anyhow::bail!("modulator unreachable (scripted)");
    }
    Ok(self.script.lock().unwrap().ops)
  }
  async fn authenticate(&self, r: AuthRequest) -> anyhow::Result<AuthResponse> {
    if !self.gate(format!("auth {}", r.token)).await {
      anyhow::bail!("modulator call failed (latency script)");
    }
    if self.unreachable() {
      anyhow::bail!("modulator unreachable (scripted)");
    }
    let a = {
      let mut s = self.script.lock().unwrap();
      s.calls.push(("auth".into(), r.token.to_string()));
      s.auth.clone()
    };
    match a {
      AuthS::Success(u) => Ok(AuthResponse { result: AuthResult::Success { username: u.as_str().into() } }),
      AuthS::Continue(c) => Ok(AuthResponse { result: AuthResult::Continue { challenge: c.as_str().into() } }),
      AuthS::Failure => Ok(AuthResponse { result: AuthResult::Failure }),
      AuthS::Failed => anyhow::bail!("scripted authenticate failure"),
    }
  }
  async fn forward_broadcast_payload(
    &self,
    r: ForwardBroadcastPayloadRequest,
  ) -> anyhow::Result<ForwardBroadcastPayloadResponse> {
    if !self.gate(format!("payload {} {}", r.from, r.channel_handler)).await {
      anyhow::bail!("modulator call failed (latency script)");
    }
    if self.unreachable() {
      anyhow::bail!("modulator unreachable (scripted)");
    }
    let v = {
      let mut s = self.script.lock().unwrap();
      s.calls.push(("payload".into(), format!("{}|{}|{}", r.from, r.channel_handler, hex(r.payload.as_slice()))));
      s.verdict.clone()
    };
    match v {
      VerdictS::Valid => Ok(ForwardBroadcastPayloadResponse { result: ForwardBroadcastPayloadResult::Valid }),
      VerdictS::Altered(p) => Ok(ForwardBroadcastPayloadResponse {
        result: ForwardBroadcastPayloadResult::ValidWithAlteration { altered_payload: self.buffer(&p).await },
      }),
      VerdictS::Invalid => Ok(ForwardBroadcastPayloadResponse { result: ForwardBroadcastPayloadResult::Invalid }),
      VerdictS::Failed | VerdictS::Down => anyhow::bail!("scripted payload validation failure"),
    }
  }
  async fn forward_event(&self, r: ForwardEventRequest) -> anyhow::Result<ForwardEventResponse> {
    {
      let e = &r.event;
      let what = format!(
        "event {} {} {} owner={}",
        e.kind,
        e.channel.as_ref().map(|c| c.to_string()).unwrap_or_default(),
        e.nid.as_ref().map(|c| c.to_string()).unwrap_or_default(),
        e.owner.unwrap_or(false)
      );
      if !self.gate(what).await {
        anyhow::bail!("modulator call failed (latency script)");
      }
    }
    if self.unreachable() {
      anyhow::bail!("modulator unreachable (scripted)");
    }
    let ok = {
      let mut s = self.script.lock().unwrap();
      let e = &r.event;
      s.calls.push((
        "event".into(),
        format!(
          "{}|{}|{}|{}",
          e.kind,
          e.channel.as_ref().map(|c| c.to_string()).unwrap_or_default(),
          e.nid.as_ref().map(|c| c.to_string()).unwrap_or_default(),
          e.owner.map(|b| b.to_string()).unwrap_or_default()
        ),
      ));
      s.ev_ok && (s.handover_ok || !(e.kind.to_string() == "MEMBER_JOINED" && e.owner == Some(true)))
    };
    if ok { Ok(ForwardEventResponse {}) } else { anyhow::bail!("scripted event failure") }
  }
  async fn send_private_payload(&self, r: SendPrivatePayloadRequest) -> anyhow::Result<SendPrivatePayloadResponse> {
    if !self.gate(format!("direct {}", r.from)).await {
      anyhow::bail!("modulator call failed (latency script)");
    }
    if self.unreachable() {
      anyhow::bail!("modulator unreachable (scripted)");
    }
    let d = {
      let mut s = self.script.lock().unwrap();
      s.calls.push(("direct".into(), format!("{}|{}", r.from, hex(r.payload.as_slice()))));
      s.direct
    };
    match d {
      Some(true) => Ok(SendPrivatePayloadResponse { result: SendPrivatePayloadResult::Valid }),
      Some(false) => Ok(SendPrivatePayloadResponse { result: SendPrivatePayloadResult::Invalid }),
      None => anyhow::bail!("scripted direct failure"),
    }
  }
  async fn receive_private_payload(
    &self,
    _r: ReceivePrivatePayloadRequest,
  ) -> anyhow::Result<ReceivePrivatePayloadResponse> {
    anyhow::bail!("not scripted")
  }
}

/// Server configuration as the harness and the model see it.
#[derive(Clone, Debug)]
pub struct SrvCfg {
  pub domain: String,
  pub max_connections: u32,
  pub max_channels: u32,
  pub max_clients: u32,
  pub max_subs: u32,
  pub max_payload: u32,
  pub max_message: u32,
  pub max_inflight: u32,
  pub queue: u32,
  pub keep_alive_ms: u64,
  pub min_keep_alive_ms: u64,
  pub connect_timeout_ms: u64,
  pub auth_timeout_ms: u64,
  pub request_timeout_ms: u64,
  pub payload_read_timeout_ms: u64,
  pub pool_budget: u64,
  /// modulator operations, None = no modulator
  pub modulator: Option<Vec<Operation>>,
}

impl Default for SrvCfg {
  fn default() -> Self {
    SrvCfg {
      domain: "localhost".into(),
      max_connections: 64,
      max_channels: 6,
      max_clients: 4,
      max_subs: 3,
      max_payload: 1024,
      max_message: 4096,
      max_inflight: 100,
      queue: 256,
      keep_alive_ms: 3_600_000,
      min_keep_alive_ms: 1_000,
      connect_timeout_ms: 3_600_000,
      auth_timeout_ms: 3_600_000,
      request_timeout_ms: 20_000,
      payload_read_timeout_ms: 10_000,
      pool_budget: 1 << 20,
      modulator: None,
    }
  }
}

impl SrvCfg {
  pub fn has_op(&self, op: Operation) -> bool {
    self.modulator.as_ref().is_some_and(|v| v.contains(&op))
  }
  /// the `cfg` line of the srv line protocol
  pub fn line(&self) -> String {
    format!(
      "cfg domain={} maxchannels={} maxclients={} maxsubs={} maxpayload={} auth={} hasmod={} fwdevent={} sendprivate={} keepalive={} minkeepalive={} maxmsg={} maxinflight={} app={}",
      self.domain,
      self.max_channels,
      self.max_clients,
      self.max_subs,
      self.max_payload,
      self.has_op(Operation::Auth) as u8,
      self.modulator.is_some() as u8,
      self.has_op(Operation::ForwardEvent) as u8,
      self.has_op(Operation::SendPrivatePayload) as u8,
      self.keep_alive_ms,
      self.min_keep_alive_ms,
      self.max_message,
      self.max_inflight,
      if self.modulator.is_some() { "TEST/1.0" } else { "-" }
    )
  }
}

/// One received frame, canonicalised.
#[derive(Clone, Debug, PartialEq)]
pub struct RFrame {
  pub msg: Message,
  pub payload: Option<Vec<u8>>,
  pub text: String,
}

pub struct ClientEnd {
  pub stream: Option<DuplexStream>,
  pub inbuf: Vec<u8>,
  pub eof: bool,
}

pub struct Srv {
  pub cfg: SrvCfg,
  pub conn_mng: c2s::conn::C2sConnManager,
  pub factory: c2s::conn::C2sDispatcherFactory,
  pub router: c2s::Router,
  pub modulator: Option<Arc<ScriptedModulator>>,
  pub clients: BTreeMap<usize, ClientEnd>,
  pub next_handler: usize,
}

/// canonical text of a frame: re-serialised by the real encoder with ERROR `detail` removed; ` #hex` for payloads
pub fn canon(msg: &Message, payload: Option<&[u8]>) -> String {
  let mut m = msg.clone();
  if let Message::Error(p) = &mut m {
    p.detail = None;
  }
  let mut buf = vec![0u8; 65536];
  let mut t = match serialize(&m, &mut buf) {
    Ok(n) => String::from_utf8_lossy(&buf[..n - 1]).to_string(),
    Err(e) => format!("UNSERIALIZABLE({e}) {:?}", m),
  };
  if let Some(p) = payload {
    t.push_str(" #");
    t.push_str(&hex(p));
  }
  t
}

impl Srv {
  pub async fn new(cfg: SrvCfg) -> Srv {
    let mut c = c2s::Config::default();
    c.listener.domain = cfg.domain.clone();
    c.connect_timeout = Duration::from_millis(cfg.connect_timeout_ms);
    c.authenticate_timeout = Duration::from_millis(cfg.auth_timeout_ms);
    c.keep_alive_interval = Duration::from_millis(cfg.keep_alive_ms);
    c.min_keep_alive_interval = Duration::from_millis(cfg.min_keep_alive_ms);
    c.request_timeout = Duration::from_millis(cfg.request_timeout_ms);
    c.payload_read_timeout = Duration::from_millis(cfg.payload_read_timeout_ms);
    c.limits.max_connections = cfg.max_connections;
    c.limits.max_channels = cfg.max_channels;
    c.limits.max_clients_per_channel = cfg.max_clients;
    c.limits.max_channels_per_client = cfg.max_subs;
    c.limits.max_message_size = cfg.max_message;
    c.limits.max_payload_size = cfg.max_payload;
    c.limits.payload_pool_memory_budget = cfg.pool_budget;
    c.limits.max_inflight_requests = cfg.max_inflight;
    c.limits.outbound_message_queue_size = cfg.queue;
    c.limits.rate_limit = 0;
    let c = Arc::new(c);

    let modulator = cfg.modulator.as_ref().map(|ops| {
      let mut o = Operations::new();
      for op in ops {
        o = o.with(*op);
      }
      Arc::new(ScriptedModulator::new(o, cfg.max_payload as usize))
    });
    let dyn_mod: Option<Arc<dyn narwhal_modulator::Modulator>> =
      modulator.clone().map(|m| m as Arc<dyn narwhal_modulator::Modulator>);

    let router = c2s::Router::new(StringAtom::from(cfg.domain.as_str()));
    let gr = GlobalRouter::new(router.clone());
    let notifier = Notifier::new(gr.clone(), dyn_mod.clone());
    let cm = ChannelManager::new(
      gr,
      notifier,
      c.limits.max_channels,
      c.limits.max_clients_per_channel,
      c.limits.max_channels_per_client,
      c.limits.max_payload_size,
    );
    let factory = c2s::conn::C2sDispatcherFactory::new(c.clone(), cm, router.clone(), dyn_mod).await.unwrap();
    let cc: narwhal_common::conn::Config = c.as_ref().into();
    let conn_mng = c2s::conn::C2sConnManager::new(cc);
    Srv { cfg, conn_mng, factory, router, modulator, clients: BTreeMap::new(), next_handler: 1 }
  }

  /// opens a connection; its server-side handler number is returned (sequential from 1)
  pub fn open(&mut self) -> usize {
    self.open_cap(1 << 22)
  }

  /// like `open`, with a pipe of `cap` bytes in each direction (a small one makes the server's writes block as soon as
  /// the client stops reading)
  pub fn open_cap(&mut self, cap: usize) -> usize {
    let (a, b) = tokio::io::duplex(cap);
    let cm = self.conn_mng.clone();
    let f = self.factory.clone();
    tokio::task::spawn_local(async move {
      cm.run_connection(b.compat(), f).await;
    });
    let k = self.next_handler;
    self.next_handler += 1;
    self.clients.insert(k, ClientEnd { stream: Some(a), inbuf: Vec::new(), eof: false });
    k
  }

  pub async fn send(&mut self, k: usize, bytes: &[u8]) {
    if let Some(c) = self.clients.get_mut(&k) {
      if let Some(s) = c.stream.as_mut() {
        let _ = s.write_all(bytes).await;
      }
    }
  }

  /// the client closes its socket
  pub fn close(&mut self, k: usize) {
    if let Some(c) = self.clients.get_mut(&k) {
      c.stream = None;
      c.eof = true;
    }
  }

  /// let the server run until nothing is ready (virtual time advances by `ms`)
  pub async fn quiesce(&self, ms: u64) {
    tokio::time::sleep(Duration::from_millis(ms)).await;
  }

  /// like `quiesce`, but does not rely on the runtime ever becoming idle (a task that keeps re-waking itself — e.g.
  /// readers of an `async_lock::RwLock` chain-notifying each other while a writer holds it — would otherwise keep the
  /// paused clock from auto-advancing): run ready tasks for a bounded number of scheduler turns, move the clock, repeat
  pub async fn settle(&self, ms: u64) {
    for _ in 0..60 {
      tokio::task::yield_now().await;
    }
    if ms > 0 {
      tokio::time::advance(Duration::from_millis(ms)).await;
    }
    for _ in 0..60 {
      tokio::task::yield_now().await;
    }
  }

  /// everything each connection has received since the last call: (frames, saw_eof_now)
  pub async fn collect(&mut self) -> BTreeMap<usize, (Vec<RFrame>, bool)> {
    let mut out = BTreeMap::new();
    for (k, c) in self.clients.iter_mut() {
      let mut eof_now = false;
      if let Some(s) = c.stream.as_mut() {
        let mut buf = [0u8; 65536];
        loop {
          match tokio::time::timeout(Duration::from_millis(0), s.read(&mut buf)).await {
            Ok(Ok(0)) => {
              eof_now = true;
              break;
            },
            Ok(Ok(n)) => c.inbuf.extend_from_slice(&buf[..n]),
            Ok(Err(_)) => {
              eof_now = true;
              break;
            },
            Err(_) => break,
          }
        }
        if eof_now {
          c.stream = None;
          c.eof = true;
        }
      }
      let frames = parse_frames(&mut c.inbuf);
      if !frames.is_empty() || eof_now {
        out.insert(*k, (frames, eof_now));
      }
    }
    out
  }
}

/// splits complete frames off the front of `inbuf` (header line, then payload + LF when the header announces one)
pub fn parse_frames(inbuf: &mut Vec<u8>) -> Vec<RFrame> {
  let mut frames = Vec::new();
  loop {
    let Some(pos) = inbuf.iter().position(|&b| b == b'\n') else { break };
    let line = inbuf[..pos].to_vec();
    match deserialize(Cursor::new(&line[..])) {
      Ok(msg) => {
        if let Some(pi) = msg.payload_info() {
          let need = pos + 1 + pi.length + 1;
          if inbuf.len() < need {
            break;
          }
          let payload = inbuf[pos + 1..pos + 1 + pi.length].to_vec();
          let term = inbuf[pos + 1 + pi.length];
          inbuf.drain(..need);
          let mut text = canon(&msg, Some(&payload));
          if term != b'\n' {
            text.push_str(" BAD-TERMINATOR");
          }
          frames.push(RFrame { msg, payload: Some(payload), text });
        } else {
          inbuf.drain(..pos + 1);
          let text = canon(&msg, None);
          frames.push(RFrame { msg, payload: None, text });
        }
      },
      Err(e) => {
        inbuf.drain(..pos + 1);
        frames.push(RFrame {
          msg: Message::Error(Default::default()),
          payload: None,
          text: format!("UNPARSEABLE({}) {}", e, hex(&line)),
        });
      },
    }
  }
  frames
}

/// canonical observation line of one step: sorted `k:frame` / `k!frame` entries joined by ` | `
pub fn obs_line(got: &BTreeMap<usize, (Vec<RFrame>, bool)>) -> String {
  let mut items = Vec::new();
  for (k, (frames, eof)) in got {
    let n = frames.len();
    for (i, f) in frames.iter().enumerate() {
      let closing = *eof && i + 1 == n && matches!(f.msg, Message::Error(_));
      items.push(format!("{}{}{}", k, if closing { "!" } else { ":" }, f.text));
    }
  }
  items.sort();
  items.join(" | ")
}
