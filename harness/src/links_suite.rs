//! Suite `links` (C06): the S2M and M2S link handshakes on the real connection engine and dispatchers.
//!   kcfg link=s2m|m2s secret=<hex|->
//!   k open c
//!   k msg c <Variant> v=<version> s=<hex|-> : one frame of that kind (CONNECT kinds with the given version / secret, every
//!                                             other kind with valid default parameters, payload included)
//! Observation: `ACK` | `ERROR <REASON> closed` | `HANDLED`, plus `fx=<n>` (modulator calls + routed payloads caused so far
//! by this case) while the connection is not authenticated.
use std::collections::BTreeMap;
use std::fmt::Write as _;
use std::io::Cursor;
use std::sync::Arc;

use narwhal_modulator::conn::{M2sConnManager, M2sDispatcherFactory, S2mConnManager, S2mDispatcherFactory};
use narwhal_modulator::modulator::{Operation, Operations};
use narwhal_modulator::{M2sServerConfig, OutboundPrivatePayload, S2mServerConfig};
use narwhal_protocol::{Message, deserialize};
use tokio::io::{AsyncReadExt, AsyncWriteExt, DuplexStream};
use tokio_util::compat::TokioAsyncReadCompatExt;

use crate::rng::{Rng, hex};
use crate::srv::*;
use crate::translate::{MsgSpec, extract_schema};

/// a frame of kind `m` with valid default parameters (all fields present), payload appended when it announces one
pub fn default_frame(m: &MsgSpec) -> Option<Vec<u8>> {
  let mut line = m.wire.clone();
  for (i, f) in m.fields.iter().enumerate() {
    let allowed = m.enums.iter().find(|e| e.0 == i).map(|e| &e.1);
    let nums = m.nums.iter().find(|e| e.0 == i).map(|e| &e.1);
    let v = match f.ty.as_str() {
      "bool" => "true".to_string(),
      "atom" => allowed.and_then(|a| a.first().cloned()).unwrap_or_else(|| match f.name.as_str() {
        "channel" => "!c@localhost".into(),
        "nid" | "from" | "on_behalf" => "u@localhost".into(),
        _ => "x".into(),
      }),
      _ => nums.and_then(|a| a.first().map(|n| n.to_string())).unwrap_or_else(|| "1".into()),
    };
    if f.kind == "vec" {
      let _ = write!(line, " {}:1={}", f.name, v);
    } else {
      let _ = write!(line, " {}={}", f.name, v);
    }
  }
  let mut bytes = line.into_bytes();
  let msg = deserialize(Cursor::new(&bytes[..])).ok()?;
  bytes.push(b'\n');
  if let Some(pi) = msg.payload_info() {
    bytes.extend(std::iter::repeat(b'p').take(pi.length));
    bytes.push(b'\n');
  }
  Some(bytes)
}

enum Mgr {
  S2m(S2mConnManager, S2mDispatcherFactory<ScriptedModulator>, Arc<ScriptedModulator>),
  M2s(M2sConnManager, M2sDispatcherFactory, tokio::sync::broadcast::Receiver<OutboundPrivatePayload>),
}

struct End {
  s: Option<DuplexStream>,
  inbuf: Vec<u8>,
  authed: bool,
}

pub async fn run_suite(seed: u64, cases: usize) -> String {
  let specs = extract_schema().expect("schema");
  let frames: Vec<(String, Vec<u8>)> = specs.iter().filter_map(|m| default_frame(m).map(|f| (m.variant.clone(), f))).collect();
  let mut master = Rng::new(seed ^ 0x11a5);
  let mut t = String::new();
  let mut fails: Vec<(usize, String)> = Vec::new();
  let mut stats: BTreeMap<String, u64> = BTreeMap::new();
  let _ = writeln!(t, "# kinds with a default frame: {} of {}", frames.len(), specs.len());
  for case in 0..cases {
    let mut r = master.fork();
    let s2m = r.chance(1, 2);
    let secret_cfg: Option<&str> = *r.pick(&[None, Some("a_test_secret"), Some("a_test_secret"), Some("s")]);
    let mut mgr = if s2m {
      let mut sc = S2mServerConfig { server: Default::default(), m2s_client: Default::default() };
      sc.server.shared_secret = secret_cfg.unwrap_or("").to_string();
      sc.server.request_timeout = std::time::Duration::from_secs(3600);
      let ops = Operations::new().with(Operation::Auth).with(Operation::ForwardEvent).with(Operation::ForwardBroadcastPayload).with(Operation::SendPrivatePayload);
      let m = Arc::new(ScriptedModulator::new(ops, 64));
      Mgr::S2m(S2mConnManager::new(&sc.server), S2mDispatcherFactory::new(Arc::new(sc), m.clone()), m)
    } else {
      let mut mc = M2sServerConfig::default();
      mc.shared_secret = secret_cfg.unwrap_or("").to_string();
      mc.request_timeout = std::time::Duration::from_secs(3600);
      let (ptx, prx) = tokio::sync::broadcast::channel::<OutboundPrivatePayload>(256);
      Mgr::M2s(M2sConnManager::new(&mc), M2sDispatcherFactory::new(Arc::new(mc), ptx), prx)
    };
    let _ = writeln!(t, "case {case}");
    let _ = writeln!(t, "kcfg link={} secret={}", if s2m { "s2m" } else { "m2s" }, secret_cfg.map(|s| hex(s.as_bytes())).unwrap_or_else(|| "-".into()));
    let connect_kind = if s2m { "S2mConnect" } else { "M2sConnect" };
    let mut ends: BTreeMap<usize, End> = BTreeMap::new();
    let mut fx_total = 0usize;
    let nconn = r.range(2, 5) as usize;
    for c in 1..=nconn {
      let (a, b) = tokio::io::duplex(1 << 20);
      match &mgr {
        Mgr::S2m(m, f, _) => {
          let (m, f) = (m.clone(), f.clone());
          tokio::task::spawn_local(async move { m.run_connection(b.compat(), f).await });
        },
        Mgr::M2s(m, f, _) => {
          let (m, f) = (m.clone(), f.clone());
          tokio::task::spawn_local(async move { m.run_connection(b.compat(), f).await });
        },
      }
      ends.insert(c, End { s: Some(a), inbuf: Vec::new(), authed: false });
      let _ = writeln!(t, "k open {c}");
      let _ = writeln!(t, "impl ");
      let nmsg = r.range(2, 7);
      for _ in 0..nmsg {
        if ends[&c].s.is_none() {
          break;
        }
        let authed = ends[&c].authed;
        // what to send: pre-handshake mostly CONNECT variants and any other kind; afterwards any kind, sometimes CONNECT again
        let use_connect = if authed { r.chance(1, 5) } else { r.chance(3, 5) };
        let (variant, version, secret, bytes): (String, u32, Option<String>, Vec<u8>) = if use_connect {
          let version = *r.pick(&[1u32, 1, 1, 1, 2, 0, 65535]);
          let base = secret_cfg.unwrap_or("a_test_secret");
          let secret: Option<String> = match r.below(9) {
            0 => None,
            1 => Some(String::new()),
            2 => Some(base[..1].to_string()),
            3 => Some(base[..base.len() - 1].to_string()),
            4 => Some(format!("{base}X")),
            5 => Some("wrong".into()),
            6 => Some(base.to_uppercase()),
            _ => Some(base.to_string()),
          };
          let mut line = format!("{} version={version} heartbeat_interval=0", if s2m { "S2M_CONNECT" } else { "M2S_CONNECT" });
          if let Some(s) = &secret {
            if s.is_empty() {
              line.push_str(" secret=\\\"\\\"");
            } else {
              let _ = write!(line, " secret={s}");
            }
          }
          line.push('\n');
          // version 0 is rejected by the decoder (non_zero): keep it, the model is told what the decoder says
          (connect_kind.to_string(), version, secret, line.into_bytes())
        } else {
          let (v, f) = r.pick(&frames).clone();
          (v, 1, None, f)
        };
        let decodes = {
          let l = bytes.split(|b| *b == b'\n').next().unwrap_or(&[]);
          deserialize(Cursor::new(l)).is_ok()
        };
        if !decodes {
          continue;
        }
        let e = ends.get_mut(&c).unwrap();
        let _ = e.s.as_mut().unwrap().write_all(&bytes).await;
        for _ in 0..60 {
          tokio::task::yield_now().await;
        }
        tokio::time::sleep(std::time::Duration::from_millis(1)).await;
        // read what came back
        let mut eof = false;
        {
          let s = e.s.as_mut().unwrap();
          let mut buf = [0u8; 65536];
          loop {
            match tokio::time::timeout(std::time::Duration::from_millis(0), s.read(&mut buf)).await {
              Ok(Ok(0)) | Ok(Err(_)) => {
                eof = true;
                break;
              },
              Ok(Ok(n)) => e.inbuf.extend_from_slice(&buf[..n]),
              Err(_) => break,
            }
          }
        }
        let got = parse_frames(&mut e.inbuf);
        // effects so far
        let fx_now = match &mut mgr {
          Mgr::S2m(_, _, m) => m.script.lock().unwrap().calls.len(),
          Mgr::M2s(_, _, prx) => {
            let mut n = 0;
            while prx.try_recv().is_ok() {
              n += 1;
            }
            fx_total + n
          },
        };
        let caused = fx_now - fx_total;
        fx_total = fx_now;
        let mut obs = String::new();
        let is_ack = got.iter().any(|f| matches!(f.msg, Message::S2mConnectAck(_) | Message::M2sConnectAck(_)));
        let err = got.iter().find_map(|f| if let Message::Error(p) = &f.msg { Some(p.reason.to_string()) } else { None });
        if is_ack {
          obs.push_str("ACK");
        } else if let Some(reason) = &err {
          if matches!(reason.as_str(), "UNEXPECTED_MESSAGE" | "UNAUTHORIZED" | "UNSUPPORTED_PROTOCOL_VERSION") {
            let _ = write!(obs, "ERROR {reason}{}", if eof { " closed" } else { "" });
          } else {
            obs.push_str("HANDLED");
          }
        } else {
          obs.push_str("HANDLED");
        }
        if !authed {
          let _ = write!(obs, " fx={caused}");
          if caused > 0 && !is_ack {
            fails.push((case, format!("C06: [effect-before-handshake] an unauthenticated {} link caused {caused} modulator call(s) / routed payload(s) with `{variant}`", if s2m { "S2M" } else { "M2S" })));
          }
          if is_ack && (variant != connect_kind || version != 1 || (secret_cfg.is_some() && secret.as_deref() != secret_cfg)) {
            fails.push((case, format!(
              "C06: [handshake-accepted] a {} link was acknowledged for `{variant}` version={version} secret={secret:?} with configured secret {secret_cfg:?}",
              if s2m { "S2M" } else { "M2S" }
            )));
          }
        }
        if is_ack {
          e.authed = true;
        }
        if eof {
          e.s = None;
        }
        let _ = writeln!(t, "k msg {c} {variant} v={version} s={}", secret.as_ref().map(|s| format!("x{}", hex(s.as_bytes()))).unwrap_or_else(|| "-".into()));
        let _ = writeln!(t, "impl {obs}");
        *stats.entry(format!("{}:{}", if authed { "authed" } else { "pre" }, obs.split(' ').take(2).collect::<Vec<_>>().join("_"))).or_insert(0) += 1;
      }
    }
  }
  for (case, f) in &fails {
    let _ = writeln!(t, "oracle-failure case={case} {f}");
  }
  let _ = writeln!(t, "stats {{\"suite\":\"links\",\"seed\":{},\"cases\":{},\"ops\":{},\"oracle_failures\":{}}}", seed, cases, crate::js_map(&stats), fails.len());
  t
}
