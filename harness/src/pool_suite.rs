//! Correspondence suite `pool` (C19): random operation sequences on the real `Pool` / `BucketedPool`
//! (and the payload pool `ConnManager::new` builds), counters compared with the Lean model after every
//! operation; buffer contents are stamped to detect a buffer handed to two holders.
use std::collections::BTreeMap;
use std::fmt::Write as _;
use std::panic::AssertUnwindSafe;

use futures::FutureExt;
use narwhal_common::conn::ConnManager;
use narwhal_common::service::C2sService;
use narwhal_util::pool::{BucketedPool, MutablePoolBuffer, Pool, PoolBuffer};

use crate::reader_suite::conn_config;
use crate::rng::Rng;

enum H {
  Mut(MutablePoolBuffer, u8),
  Shared(PoolBuffer, u8),
}

fn stats(p: &Pool) -> String {
  format!("avail={} inuse={}", p.available_count(), p.in_use_count())
}

pub fn run_suite(seed: u64, cases: usize) -> String {
  let mut rng = Rng::new(seed);
  let mut t = String::new();
  let mut fails: Vec<String> = Vec::new();
  for case in 0..cases {
    let _ = writeln!(t, "case {case}");
    if case % 4 == 3 {
      geometry_case(&mut rng, &mut t, &mut fails);
      continue;
    }
    let n = rng.range(1, 5) as usize;
    let size = 16usize;
    let pool = Pool::new(n, size);
    let _ = writeln!(t, "pool new {n}\nimpl {}", stats(&pool));
    let mut hs: BTreeMap<usize, H> = BTreeMap::new();
    let mut next = 0usize;
    for _ in 0..rng.range(5, 40) {
      let keys: Vec<usize> = hs.keys().copied().collect();
      let r = rng.below(100);
      if r < 35 || keys.is_empty() {
        let res = std::panic::catch_unwind(AssertUnwindSafe(|| pool.acquire_buffer().now_or_never()));
        match res {
          Err(_) => {
            let _ = writeln!(t, "pool acq\nimpl PANIC");
            fails.push(format!("C19: acquire_buffer panicked in case {case} (a permit was available but the queue was empty)"));
            break;
          },
          Ok(None) => {
            let _ = writeln!(t, "pool acq\nimpl BLOCK {}", stats(&pool));
          },
          Ok(Some(mut b)) => {
            let stamp = (next % 250) as u8 + 1;
            if b.as_slice().iter().any(|x| *x != 0) {
              // a returned buffer keeps its old contents; what matters is that nobody else holds it now
            }
            b.as_mut_slice().fill(stamp);
            hs.insert(next, H::Mut(b, stamp));
            let _ = writeln!(t, "pool acq\nimpl h{next} {}", stats(&pool));
            next += 1;
          },
        }
      } else {
        let k = *rng.pick(&keys);
        match rng.below(5) {
          0 | 1 => {
            // freeze (mutable) or clone (shared)
            match hs.remove(&k).unwrap() {
              H::Mut(mut b, st) => {
                let f = b.freeze(size);
                hs.insert(k, H::Shared(f, st));
                drop(b);
                let _ = writeln!(t, "pool freeze {k}\nimpl {}", stats(&pool));
              },
              H::Shared(b, st) => {
                let c = b.clone();
                hs.insert(k, H::Shared(b, st));
                hs.insert(next, H::Shared(c, st));
                let _ = writeln!(t, "pool clone {k}\nimpl h{next} {}", stats(&pool));
                next += 1;
              },
            }
          },
          2 | 3 => {
            let h = hs.remove(&k).unwrap();
            drop(h);
            let _ = writeln!(t, "pool drop {k}\nimpl {}", stats(&pool));
          },
          _ => {
            // batch release of some shared handles
            let shared: Vec<usize> = hs.iter().filter(|(_, h)| matches!(h, H::Shared(..))).map(|(k, _)| *k).collect();
            if shared.is_empty() {
              continue;
            }
            let take: Vec<usize> = shared.into_iter().filter(|_| rng.chance(1, 2)).collect();
            if take.is_empty() {
              continue;
            }
            let mut v: Vec<PoolBuffer> = Vec::new();
            for k in &take {
              if let Some(H::Shared(b, _)) = hs.remove(k) {
                v.push(b);
              }
            }
            pool.release_buffers(&mut v);
            let _ = writeln!(
              t,
              "pool release {}\nimpl {}",
              take.iter().map(|k| k.to_string()).collect::<Vec<_>>().join(" "),
              stats(&pool)
            );
          },
        }
      }
      // exclusivity: every held buffer still carries its holder's stamp
      for (k, h) in &hs {
        let (sl, st) = match h {
          H::Mut(b, st) => (b.as_slice(), *st),
          H::Shared(b, st) => (b.as_slice(), *st),
        };
        if sl.iter().any(|x| *x != st) {
          fails.push(format!("C19: the bytes of the buffer behind handle {k} changed while it was held (case {case}): it was handed out twice"));
        }
      }
    }
    drop(hs);
    if pool.available_count() != n || pool.in_use_count() != 0 {
      fails.push(format!("C19: after every holder was dropped the pool has {} of {n} buffers available (case {case})", pool.available_count()));
    }
    // all permits are back too: n acquisitions must succeed without blocking
    let mut again = Vec::new();
    for _ in 0..n {
      match std::panic::catch_unwind(AssertUnwindSafe(|| pool.acquire_buffer().now_or_never())) {
        Ok(Some(b)) => again.push(b),
        Ok(None) => {
          fails.push(format!("C19: permits drifted: only {} of {n} buffers can be acquired after all were returned (case {case})", again.len()));
          break;
        },
        Err(_) => {
          fails.push(format!("C19: acquire_buffer panicked after all buffers were returned (case {case})"));
          break;
        },
      }
    }
    if again.len() == n {
      match std::panic::catch_unwind(AssertUnwindSafe(|| pool.acquire_buffer().now_or_never().is_some())) {
        Ok(true) => fails.push(format!("C19: more than {n} buffers could be acquired (case {case})")),
        Ok(false) => {},
        Err(_) => fails.push(format!(
          "C19: with all {n} buffers held, acquire_buffer found a permit and panicked on the empty queue instead of waiting (case {case})"
        )),
      }
    }
  }
  for f in &fails {
    let _ = writeln!(t, "oracle-failure case=0 {f}");
  }
  let _ = writeln!(t, "stats {{\"suite\":\"pool\",\"seed\":{seed},\"cases\":{cases},\"oracle_failures\":{}}}", fails.len());
  t
}

fn geo_str(g: &[(usize, usize, usize)]) -> String {
  g.iter().map(|(c, s, _)| format!("{c}x{s}")).collect::<Vec<_>>().join(" ")
}

fn geometry_case(rng: &mut Rng, t: &mut String, fails: &mut Vec<String>) {
  if rng.chance(1, 2) {
    // the payload pool of a connection manager: every legal payload length must have a bucket
    let conns = *rng.pick(&[1u32, 2, 3, 100]);
    let maxp = *rng.pick(&[1u32, 255, 256, 257, 300, 1000, 1024, 5000, 65536, 70000]);
    let budget = *rng.pick(&[1u64, 4096, 8192, 100_000, 1 << 20, 1 << 24]);
    let mng: ConnManager<C2sService> = ConnManager::new(conn_config(256, maxp, budget));
    let _ = conns;
    let g = mng.verif_payload_geometry().now_or_never().unwrap();
    let _ = writeln!(t, "cpool new 8 {maxp} {budget}\nimpl {}", geo_str(&g));
    let top = g.iter().map(|x| x.1).max().unwrap_or(0);
    if top < maxp as usize {
      fails.push(format!("C19: max_payload_size {maxp} (budget {budget}) has no bucket: largest is {top}"));
    }
    return;
  }
  let min = *rng.pick(&[1usize, 16, 256]);
  let g = *rng.pick(&[2usize, 2, 3, 4]);
  let max = min * g.pow(rng.range(0, 5) as u32) + *rng.pick(&[0usize, 0, 1, 7]);
  let budget = *rng.pick(&[1usize, 100, 1000, 4096, 10_000, 100_000, 1_000_000]);
  let cap = *rng.pick(&[1usize, 2, 5, 1000]);
  let bp = BucketedPool::new_with_memory_budget(min, max, budget, cap, g, 0.5);
  let geo = bp.verif_geometry();
  let _ = writeln!(t, "bpool new {min} {max} {budget} {cap} {g}\nimpl {}", geo_str(&geo));
  let total: usize = geo.iter().map(|(c, s, _)| c * s).sum();
  if total > budget {
    fails.push(format!("C19: pool geometry uses {total} bytes of a {budget}-byte budget"));
  }
  // selection under various availability patterns
  let mut held: Vec<MutablePoolBuffer> = Vec::new();
  for _ in 0..rng.range(2, 14) {
    let req = match rng.below(4) {
      0 => *rng.pick(&[1usize, min, max, max + 1]),
      _ => rng.range(1, max as u64 + 2) as usize,
    };
    let avail: Vec<String> = bp.verif_geometry().iter().map(|x| x.2.to_string()).collect();
    let line = format!("bpool choose {req} {}", avail.join(" "));
    match std::panic::catch_unwind(AssertUnwindSafe(|| bp.acquire_buffer(req).now_or_never())) {
      Err(_) => {
        let _ = writeln!(t, "{line}\nimpl PANIC");
        fails.push(format!("C19: BucketedPool::acquire_buffer({req}) panicked"));
        return;
      },
      Ok(None) => {
        let _ = writeln!(t, "{line}\nimpl block");
      },
      Ok(Some(None)) => {
        let _ = writeln!(t, "{line}\nimpl none");
      },
      Ok(Some(Some(b))) => {
        let _ = writeln!(t, "{line}\nimpl take {}", b.len());
        if b.len() < req {
          fails.push(format!("C19: asked for {req} bytes, got a buffer of {}", b.len()));
        }
        if rng.chance(3, 4) {
          held.push(b);
        }
      },
    }
    if !held.is_empty() && rng.chance(1, 5) {
      let i = rng.below(held.len() as u64) as usize;
      held.swap_remove(i);
    }
  }
}
