//! Correspondence suite `reader` (C10): the real connection loop (`ConnManager::run_connection`) with a
//! recording dispatcher, fed one byte stream under many segmentations; the Lean frame-reader model
//! replays each segmentation and the stream-level spec.
use std::fmt::Write as _;
use std::sync::{Arc, Mutex};
use std::time::Duration;

use narwhal_common::conn::{ConnManager, ConnTx, Dispatcher, DispatcherFactory, State};
use narwhal_common::service::C2sService;
use narwhal_protocol::Message;
use narwhal_util::pool::PoolBuffer;
use tokio::io::{AsyncReadExt, AsyncWriteExt};
use tokio_util::compat::TokioAsyncReadCompatExt;

use crate::rng::{Rng, hex, xhex};

type Log = Arc<Mutex<Vec<String>>>;

pub struct Recorder {
  log: Log,
}

#[async_trait::async_trait]
impl Dispatcher for Recorder {
  async fn dispatch_message(&mut self, msg: Message, payload: Option<PoolBuffer>, state: State) -> anyhow::Result<Option<State>> {
    let id = msg.correlation_id().map(|i| format!("id={i}")).unwrap_or_else(|| "?".into());
    let p = payload.as_ref().map(|b| hex(b.as_slice())).unwrap_or_else(|| "-".into());
    self.log.lock().unwrap().push(format!("M:{}:{}:{}", msg.name(), id, p));
    // stay in the initial state: messages are then dispatched inline by the connection loop, so what
    // is recorded is exactly what the loop parsed, in order (request tasks could be cancelled unseen)
    let _ = state;
    Ok(None)
  }
  async fn bootstrap(&mut self) -> anyhow::Result<()> {
    Ok(())
  }
  async fn shutdown(&mut self) -> anyhow::Result<()> {
    Ok(())
  }
}

#[derive(Clone)]
pub struct RecorderFactory {
  log: Log,
  /// the connection's transmitter, handed out so that the suite can queue outbound frames between input chunks
  tx: Arc<Mutex<Option<ConnTx>>>,
}

#[async_trait::async_trait]
impl DispatcherFactory<Recorder> for RecorderFactory {
  async fn create(&mut self, _handler: usize, tx: ConnTx) -> Recorder {
    *self.tx.lock().unwrap() = Some(tx);
    Recorder { log: self.log.clone() }
  }
  async fn bootstrap(&mut self) -> anyhow::Result<()> {
    Ok(())
  }
  async fn shutdown(&mut self) -> anyhow::Result<()> {
    Ok(())
  }
}

pub fn conn_config(cap: u32, max_payload: u32, budget: u64) -> narwhal_common::conn::Config {
  narwhal_common::conn::Config {
    max_connections: 8,
    max_message_size: cap,
    max_payload_size: max_payload,
    connect_timeout: Duration::from_secs(36000),
    authenticate_timeout: Duration::from_secs(36000),
    payload_read_timeout: Duration::from_secs(36000),
    payload_pool_memory_budget: budget,
    outbound_message_queue_size: 4096,
    request_timeout: Duration::from_secs(36000),
    max_inflight_requests: 100_000,
    rate_limit: 0,
  }
}

/// runs one segmentation against the real connection loop; returns the canonical event list
pub async fn run_impl(cap: u32, max_payload: u32, budget: u64, chunks: &[Vec<u8>]) -> String {
  run_impl_ending(cap, max_payload, budget, chunks, false).await
}

/// `stall`: after the last segment the peer goes silent and keeps the socket open (instead of closing it)
pub async fn run_impl_ending(cap: u32, max_payload: u32, budget: u64, chunks: &[Vec<u8>], stall: bool) -> String {
  let log: Log = Arc::new(Mutex::new(Vec::new()));
  let mut cc = conn_config(cap, max_payload, budget);
  if stall {
    cc.payload_read_timeout = Duration::from_secs(5);
  }
  let mng: ConnManager<C2sService> = ConnManager::new(cc);
  let (mut a, b) = tokio::io::duplex(1 << 22);
  let txslot: Arc<Mutex<Option<ConnTx>>> = Arc::new(Mutex::new(None));
  let f = RecorderFactory { log: log.clone(), tx: txslot.clone() };
  let task = tokio::task::spawn_local(async move {
    mng.run_connection(b.compat(), f).await;
  });
  let mut closed_early = false;
  for (i, c) in chunks.iter().enumerate() {
    if a.write_all(c).await.is_err() {
      closed_early = true;
      break;
    }
    tokio::time::sleep(Duration::from_millis(1)).await;
    // outbound traffic between two input segments: the connection loop's `select!` then takes its write branch and
    // drops the pending read of a half-received line — which must not lose what was already read
    // (fewer frames than the outbound queue holds: the loop does not write while it is reading a payload)
    if i < 3000 && let Some(tx) = txslot.lock().unwrap().clone() {
      tx.send_message(Message::Ping(narwhal_protocol::PingParameters { id: 1_000_000 + i as u32 }));
    }
    tokio::time::sleep(Duration::from_millis(1)).await;
  }
  let _ = closed_early;
  if stall {
    // silence for longer than payload_read_timeout (and far shorter than every other deadline)
    tokio::time::sleep(Duration::from_secs(7)).await;
  } else {
    let _ = a.shutdown().await;
  }
  tokio::time::sleep(Duration::from_millis(5)).await;
  // what the server said before closing
  let mut out = Vec::new();
  let mut buf = [0u8; 4096];
  let mut still_open = false;
  loop {
    match tokio::time::timeout(Duration::from_millis(50), a.read(&mut buf)).await {
      Ok(Ok(0)) | Ok(Err(_)) => break,
      Err(_) => {
        still_open = true;
        break;
      },
      Ok(Ok(n)) => out.extend_from_slice(&buf[..n]),
    }
  }
  if stall && still_open {
    drop(a);
  }
  let panicked = match tokio::time::timeout(Duration::from_millis(50), task).await {
    Ok(Err(e)) => e.is_panic(),
    _ => false,
  };
  // the frames queued above are not part of the observation
  let text: String = String::from_utf8_lossy(&out).split_inclusive('\n').filter(|l| !(l.starts_with("PING id=1") && l.trim_end().len() == "PING id=1000000".len())).collect();
  let mut evs: Vec<String> = log.lock().unwrap().clone();
  let end = if panicked {
    "E:PANIC".to_string()
  } else if text.contains("payload read timeout") {
    "E:paytimeout".into()
  } else if stall && still_open && text.is_empty() {
    "E:waiting".into()
  } else if text.contains("max message size exceeded") {
    "E:toolong".into()
  } else if text.contains("payload too large") {
    "E:paytoolarge".into()
  } else if text.contains("invalid payload format") {
    "E:badterm".into()
  } else if text.contains("reason=BAD_REQUEST") {
    "E:badreq".into()
  } else if text.contains("reason=INTERNAL_SERVER_ERROR") {
    "E:truncated".into()
  } else if text.is_empty() {
    "E:eof".into()
  } else {
    format!("E:other({})", text.trim().replace(' ', "_"))
  };
  evs.push(end);
  evs.join(" ")
}

/// a byte stream of frames from the restricted header menu (see Driver/Rd.lean `hdrSimple`)
pub fn gen_stream(rng: &mut Rng, cap: u32, max_payload: u32) -> Vec<u8> {
  let mut s = Vec::new();
  let n = rng.range(1, 6);
  let mut id = 1u32;
  for i in 0..n {
    let last = i + 1 == n;
    let r = rng.below(100);
    if r < 35 {
      s.extend_from_slice(format!("PING id={id}\n").as_bytes());
    } else if r < 85 {
      let len = match rng.below(10) {
        0 => 1,
        1 => max_payload as u64,
        2 => max_payload as u64 + 1,
        3 => 255.min(max_payload as u64),
        4 => 256.min(max_payload as u64),
        5 => 257.min(max_payload as u64),
        _ => rng.range(1, (max_payload as u64).min(40)),
      };
      let hdr = format!("BROADCAST id={id} channel=!c@localhost length={len}\n");
      s.extend_from_slice(hdr.as_bytes());
      let mut p = Vec::new();
      for j in 0..len {
        p.push(match rng.below(8) {
          0 => b'\n',
          1 => b'P',
          2 => 0,
          _ => (j as u8).wrapping_mul(37).wrapping_add(id as u8),
        });
      }
      // payloads that look like headers
      if len >= 10 && rng.chance(1, 4) {
        let fake = b"PING id=9\n";
        p[..fake.len()].copy_from_slice(fake);
      }
      if last && rng.chance(1, 4) {
        // truncated payload or bad terminator
        if rng.chance(1, 2) {
          let cut = rng.below(len + 1) as usize;
          s.extend_from_slice(&p[..cut]);
        } else {
          s.extend_from_slice(&p);
          s.push(b'X');
          s.extend_from_slice(b"PING id=77\n");
        }
        return s;
      }
      s.extend_from_slice(&p);
      s.push(b'\n');
    } else if r < 90 {
      // header as long as the buffer allows, or one longer
      let target = if rng.chance(1, 2) { cap as usize } else { cap as usize - 1 };
      let mut h = format!("PING id={id}").into_bytes();
      while h.len() < target {
        h.push(b' ');
      }
      h.truncate(target.max(9));
      if rng.chance(1, 3) {
        h.push(b'#');
      }
      s.extend_from_slice(&h);
      s.push(b'\n');
    } else if r < 95 {
      s.extend_from_slice(b"BOGUS frame here\n");
      return s;
    } else {
      // partial header at EOF
      s.extend_from_slice(b"PING id=");
      return s;
    }
    id += 1;
  }
  s
}

/// where the peer goes silent: just before the terminator of a payload (2/5), inside a payload body (1/5), anywhere (2/5)
pub fn stall_cut(rng: &mut Rng, stream: &[u8]) -> usize {
  // (start of body, announced length) of every well-formed BROADCAST header in the stream, found by scanning the way the
  // generator wrote it
  let mut bodies: Vec<(usize, usize)> = Vec::new();
  let mut i = 0usize;
  while i < stream.len() {
    let Some(nl) = stream[i..].iter().position(|b| *b == b'\n') else { break };
    let line = String::from_utf8_lossy(&stream[i..i + nl]).to_string();
    i += nl + 1;
    if let Some(l) = line.strip_prefix("BROADCAST ").and_then(|r| r.rsplit("length=").next().map(|x| x.to_string())) {
      if let Ok(len) = l.trim().parse::<usize>() {
        bodies.push((i, len));
        i += len + 1;
      }
    }
  }
  let choice = rng.below(5);
  if !bodies.is_empty() && choice < 3 {
    let (start, len) = bodies[rng.below(bodies.len() as u64) as usize];
    let at = if choice < 2 { start + len } else { start + rng.below(len as u64 + 1) as usize };
    return at.min(stream.len());
  }
  rng.below(stream.len() as u64 + 1) as usize
}

/// do the bytes end inside a payload announced by a BROADCAST header (scanning the way the generator wrote the stream)?
pub fn ends_inside_payload(part: &[u8]) -> bool {
  let mut i = 0usize;
  while i < part.len() {
    let Some(nl) = part[i..].iter().position(|b| *b == b'\n') else { return false };
    let line = String::from_utf8_lossy(&part[i..i + nl]).to_string();
    i += nl + 1;
    if line.starts_with("BROADCAST ") {
      let Some(l) = line.rsplit("length=").next() else { return false };
      let Ok(len) = l.trim().parse::<usize>() else { return false };
      if part.len() < i + len + 1 {
        return true;
      }
      i += len + 1;
    }
  }
  false
}

pub fn segmentations(rng: &mut Rng, stream: &[u8], k: usize) -> Vec<Vec<Vec<u8>>> {
  let mut v = Vec::new();
  if stream.is_empty() {
    return vec![vec![]];
  }
  v.push(vec![stream.to_vec()]);
  v.push(stream.iter().map(|b| vec![*b]).collect());
  for _ in 0..k {
    let mut cuts: Vec<usize> = Vec::new();
    let ncuts = rng.range(1, 6.min(stream.len() as u64));
    for _ in 0..ncuts {
      cuts.push(rng.range(1, stream.len() as u64 - 1 + 1) as usize);
    }
    cuts.sort();
    cuts.dedup();
    let mut segs = Vec::new();
    let mut prev = 0;
    for c in cuts {
      if c > prev && c < stream.len() {
        segs.push(stream[prev..c].to_vec());
        prev = c;
      }
    }
    segs.push(stream[prev..].to_vec());
    v.push(segs);
  }
  v
}

pub struct Out {
  pub transcript: String,
  pub streams: usize,
  pub runs: usize,
  pub seg_dependent: Vec<String>,
}

pub async fn run_suite(seed: u64, cases: usize, exhaustive_cuts: bool) -> Out {
  let mut rng = Rng::new(seed);
  let mut t = String::new();
  let mut runs = 0;
  let mut seg_dependent = Vec::new();
  for case in 0..cases {
    let cap = *rng.pick(&[128u32, 129, 160, 256, 1024]);
    let max_payload = *rng.pick(&[8u32, 32, 256, 300, 1000]);
    let budget = *rng.pick(&[1u64, 4096, 1 << 20]);
    let stream = gen_stream(&mut rng, cap, max_payload);
    let _ = writeln!(t, "case {case}");
    let _ = writeln!(t, "rcfg cap={cap} maxpayload={max_payload}");
    let mut segs = segmentations(&mut rng, &stream, 4);
    if exhaustive_cuts && stream.len() <= 80 {
      for c in 1..stream.len() {
        segs.push(vec![stream[..c].to_vec(), stream[c..].to_vec()]);
      }
    }
    // the same stream cut short where the peer goes silent: before a payload's terminator, inside a body, or anywhere
    {
      let cut = stall_cut(&mut rng, &stream);
      let part = &stream[..cut];
      let mut ssegs = segmentations(&mut rng, part, 1);
      ssegs.truncate(3);
      let mut sfirst: Option<String> = None;
      for seg in ssegs {
        let obs = run_impl_ending(cap, max_payload, budget, &seg, true).await;
        runs += 1;
        let line: Vec<String> = seg.iter().map(|c| xhex(c)).collect();
        let _ = writeln!(t, "stall {}", if line.is_empty() { "-".to_string() } else { line.join(" ") });
        let _ = writeln!(t, "impl {obs}");
        // the statement itself ("never a hang"): the connection is still open and silent although the bytes received end
        // inside an announced payload (body or terminator outstanding)
        if obs.ends_with("E:waiting") && ends_inside_payload(part) {
          seg_dependent.push(format!(
            "C10: case {case}: hang: the peer sent a header announcing a payload, {} and went silent; {}s later (payload_read_timeout = 5s) the connection is still open and nothing was answered (stream {})",
            "delivered part of it (the body, or the body without its terminating newline)",
            7,
            xhex(part)
          ));
        }
        match &sfirst {
          None => sfirst = Some(obs),
          Some(f) => {
            if *f != obs {
              seg_dependent.push(format!(
                "C10: case {case}: the same {}-byte stream followed by silence was acted on differently under two segmentations: [{f}] vs [{obs}] (stream {})",
                part.len(),
                xhex(part)
              ));
            }
          },
        }
      }
    }
    let mut first: Option<String> = None;
    for seg in segs {
      let obs = run_impl(cap, max_payload, budget, &seg).await;
      runs += 1;
      let line: Vec<String> = seg.iter().map(|c| xhex(c)).collect();
      let _ = writeln!(t, "chunks {}", if line.is_empty() { "-".to_string() } else { line.join(" ") });
      let _ = writeln!(t, "impl {obs}");
      match &first {
        None => first = Some(obs),
        Some(f) => {
          if *f != obs {
            seg_dependent.push(format!(
              "C10: case {case}: the same {}-byte stream was acted on differently under two segmentations: [{f}] vs [{obs}] (stream {})",
              stream.len(),
              xhex(&stream)
            ));
          }
        },
      }
    }
  }
  Out { transcript: t, streams: cases, runs, seg_dependent }
}
