//! Correspondence suite `client` (C16): the real generic `Client` (common/src/client.rs) over an in-memory
//! dialer, against a scripted peer, under virtual time.
use std::collections::BTreeMap;
use std::fmt::Write as _;
use std::sync::{Arc, Mutex};
use std::time::Duration;

use narwhal_common::client::{Client, Config as CConfig, Handshaker, SessionInfo};
use narwhal_common::service::S2mService;
use narwhal_protocol::*;
use narwhal_util::conn::Dialer;
use narwhal_util::pool::PoolBuffer;
use tokio::io::{AsyncReadExt, AsyncWriteExt, DuplexStream};
use tokio::task::JoinHandle;
use tokio_util::compat::{Compat, TokioAsyncReadCompatExt};

use crate::rng::Rng;

#[derive(Clone)]
struct HS(u32);
#[async_trait::async_trait]
impl Handshaker<Compat<DuplexStream>> for HS {
  type SessionExtraInfo = ();
  async fn handshake(&self, _s: &mut Compat<DuplexStream>) -> anyhow::Result<(SessionInfo, ())> {
    Ok((SessionInfo { heartbeat_interval: 3_600_000, max_inflight_requests: self.0, max_message_size: 4096, max_payload_size: 1024 }, ()))
  }
}
struct D(Mutex<Option<DuplexStream>>);
#[async_trait::async_trait]
impl Dialer for D {
  type Stream = Compat<DuplexStream>;
  async fn dial(&self) -> anyhow::Result<Self::Stream> {
    match self.0.lock().unwrap().take() {
      Some(s) => Ok(s.compat()),
      None => anyhow::bail!("no more connections"),
    }
  }
}

type Res = anyhow::Result<(Message, Option<PoolBuffer>)>;

struct Case {
  peer: DuplexStream,
  peer_buf: Vec<u8>,
  written: Vec<u32>,
  pongs: Vec<u32>,
  handles: BTreeMap<u32, JoinHandle<Res>>,
  results: BTreeMap<u32, String>,
  order: Vec<u32>,
  reported: usize,
}

impl Case {
  async fn settle(&mut self, ms: u64) {
    tokio::time::sleep(Duration::from_millis(ms)).await;
    // what the peer has received so far
    let mut buf = [0u8; 8192];
    loop {
      match tokio::time::timeout(Duration::from_millis(0), self.peer.read(&mut buf)).await {
        Ok(Ok(n)) if n > 0 => self.peer_buf.extend_from_slice(&buf[..n]),
        _ => break,
      }
    }
    while let Some(pos) = self.peer_buf.iter().position(|b| *b == b'\n') {
      let line: Vec<u8> = self.peer_buf.drain(..=pos).collect();
      if let Ok(m) = deserialize(std::io::Cursor::new(&line[..line.len() - 1])) {
        match m {
          Message::S2mAuth(p) => self.written.push(p.id),
          Message::Pong(p) => self.pongs.push(p.id),
          _ => {},
        }
      }
    }
    // finished requests
    let done: Vec<u32> = self.handles.iter().filter(|(_, h)| h.is_finished()).map(|(k, _)| *k).collect();
    for id in done {
      let h = self.handles.remove(&id).unwrap();
      let r = match h.await {
        Ok(Ok((Message::S2mAuthAck(p), _))) => {
          let c = p.challenge.map(|c| c.to_string()).unwrap_or_default();
          format!("ok:{}", c.trim_start_matches('r'))
        },
        Ok(Ok((m, _))) => format!("ok-other:{}", m.name()),
        Ok(Err(e)) => {
          if e.to_string().contains("timed out") { "timeout".into() } else { format!("err:{}", e.to_string().replace(' ', "_")) }
        },
        Err(e) => format!("join-error:{}", if e.is_panic() { "panic" } else { "cancelled" }),
      };
      self.results.insert(id, r);
    }
  }
  /// ids written to the peer since the last report (the semaphore's grant decisions, fed to the model)
  fn granted(&mut self) -> String {
    let new: Vec<String> = self.written[self.reported..].iter().map(|x| x.to_string()).collect();
    self.reported = self.written.len();
    format!("granted {}", new.join(" "))
  }
  fn obs(&self) -> String {
    let res: Vec<String> =
      self.order.iter().map(|id| format!("{id}={}", self.results.get(id).cloned().unwrap_or_else(|| "pending".into()))).collect();
    format!("written={:?} pongs={:?} results=[{}]", self.written, self.pongs, res.join(" "))
  }
}

/// a settle time that does not land on (or next to) a pending deadline: timer expiry at the very instant of an
/// observation is scheduler-order dependent
fn safe_dt(now: u64, want: u64, deadlines: &[u64]) -> u64 {
  let mut dt = want;
  while deadlines.iter().any(|d| (now + dt).abs_diff(*d) <= 1) {
    dt += 1;
  }
  dt
}

pub async fn run_suite(seed: u64, cases: usize) -> String {
  let mut rng = Rng::new(seed);
  let mut t = String::new();
  let mut fails: Vec<String> = Vec::new();
  for case in 0..cases {
    let max = *rng.pick(&[1u32, 2, 3, 5]);
    let timeout_ms = 100u64;
    let (cl, peer) = tokio::io::duplex(1 << 20);
    let client: Client<Compat<DuplexStream>, HS, S2mService> = Client::new(
      "t",
      CConfig {
        max_idle_connections: 1,
        heartbeat_interval: Duration::from_secs(3600),
        connect_timeout: Duration::from_secs(1),
        timeout: Duration::from_millis(timeout_ms),
        payload_read_timeout: Duration::from_secs(1),
        backoff_initial_delay: Duration::from_millis(10),
        backoff_max_delay: Duration::from_millis(10),
        backoff_max_retries: 1,
      },
      Arc::new(D(Mutex::new(Some(cl)))),
      HS(max),
    )
    .unwrap();
    let mut c = Case {
      peer,
      peer_buf: Vec::new(),
      written: Vec::new(),
      pongs: Vec::new(),
      handles: BTreeMap::new(),
      results: BTreeMap::new(),
      order: Vec::new(),
      reported: 0,
    };
    let _ = writeln!(t, "case {case}\nccfg {max} {timeout_ms}");
    let mut next_id = 1u32;
    let mut now = 0u64;
    let mut deadlines: Vec<u64> = Vec::new();
    let steps = rng.range(6, 10 * max as u64 + 10);
    for _ in 0..steps {
      let r = rng.below(100);
      let live: Vec<u32> = c.order.iter().filter(|id| !c.results.contains_key(id)).copied().collect();
      if r < 40 || c.order.is_empty() {
        let id = next_id;
        next_id += 1;
        let h = client
          .send_message(Message::S2mAuth(S2mAuthParameters { id, token: "t".into() }), None)
          .await
          .expect("send_message");
        c.handles.insert(id, h);
        c.order.push(id);
        deadlines.push(now + timeout_ms);
        let dt = safe_dt(now, 1, &deadlines);
        c.settle(dt).await;
        now += dt;
        let g = c.granted();
        let _ = writeln!(t, "{g}\nreq {id} {dt}\nimpl {}", c.obs());
        let dt = safe_dt(now, 6, &deadlines);
        c.settle(dt).await;
        now += dt;
        let g = c.granted();
        let _ = writeln!(t, "{g}\nadvance {dt}\nimpl {}", c.obs());
      } else if r < 70 {
        // a reply: mostly to a live request (any order), sometimes duplicate / late / unsolicited
        let id = if !live.is_empty() && rng.chance(3, 4) { *rng.pick(&live) } else { rng.range(1, next_id as u64 + 2) as u32 };
        let content = rng.range(1, 999);
        let line = format!("S2M_AUTH_ACK id={id} challenge=r{content} succeeded=false\n");
        c.peer.write_all(line.as_bytes()).await.unwrap();
        let dt = safe_dt(now, 1, &deadlines);
        c.settle(dt).await;
        now += dt;
        let g = c.granted();
        let _ = writeln!(t, "{g}\nreply {id} {content} {dt}\nimpl {}", c.obs());
      } else if r < 80 {
        // a PING from the peer, possibly with the id of a request in flight
        let id = if !live.is_empty() && rng.chance(1, 2) { *rng.pick(&live) } else { rng.range(1, 1000) as u32 };
        c.peer.write_all(format!("PING id={id}\n").as_bytes()).await.unwrap();
        let dt = safe_dt(now, 1, &deadlines);
        c.settle(dt).await;
        now += dt;
        let g = c.granted();
        let _ = writeln!(t, "{g}\nping {id} {dt}\nimpl {}", c.obs());
      } else {
        let mut ms = *rng.pick(&[7u64, 30, 50, 99, 120, 250]);
        // While requests are queued for a permit, let at most one deadline pass per step: which waiter a
        // burst of simultaneous releases wakes is up to async-lock's event listener (trusted, not modelled).
        let waiting = live.len() > max as usize;
        if waiting {
          let mut future: Vec<u64> = deadlines.iter().filter(|d| **d > now).copied().collect();
          future.sort();
          if future.len() >= 2 {
            ms = ms.min(future[1].saturating_sub(now).saturating_sub(3)).max(1);
          }
        }
        // stay clear of exact deadline instants (timer granularity)
        while deadlines.iter().any(|d| (now + ms).abs_diff(*d) <= 2) {
          ms += if waiting { 1 } else { 5 };
        }
        c.settle(ms).await;
        now += ms;
        let g = c.granted();
        let _ = writeln!(t, "{g}\nadvance {ms}\nimpl {}", c.obs());
      }
    }
    // C16 oracle: after everything timed out or completed, a full window can be in flight again
    // drain: one deadline at a time
    for _ in 0..(c.order.len() + 2) {
      let mut future: Vec<u64> = deadlines.iter().filter(|d| **d > now).copied().collect();
      future.sort();
      let ms = match future.first() {
        Some(d) => d - now + 3,
        None => break,
      };
      c.settle(ms).await;
      now += ms;
      let g = c.granted();
        let _ = writeln!(t, "{g}\nadvance {ms}\nimpl {}", c.obs());
    }
    c.settle(300).await;
    let g = c.granted();
    let _ = writeln!(t, "{g}\nadvance 300\nimpl {}", c.obs());
    let before = c.written.len();
    for _ in 0..max {
      let id = next_id;
      next_id += 1;
      let h = client.send_message(Message::S2mAuth(S2mAuthParameters { id, token: "t".into() }), None).await.expect("send_message");
      c.handles.insert(id, h);
      c.order.push(id);
      c.settle(1).await;
      let g = c.granted();
        let _ = writeln!(t, "{g}\nreq {id} 1\nimpl {}", c.obs());
    }
    if c.written.len() != before + max as usize {
      fails.push(format!(
        "C16: after earlier requests had timed out or completed, only {} of a window of {max} new requests were written to the peer (case {case})",
        c.written.len() - before
      ));
    }
    for (id, r) in &c.results {
      if r.starts_with("join-error") || r.starts_with("ok-other") {
        fails.push(format!("C16: request {id} was not completed by its own reply: {r} (case {case})"));
      }
    }
    let _ = client.shutdown().await;
  }
  for f in &fails {
    let _ = writeln!(t, "oracle-failure case=0 {f}");
  }
  let _ = writeln!(t, "stats {{\"suite\":\"client\",\"seed\":{seed},\"cases\":{cases},\"oracle_failures\":{}}}", fails.len());
  t
}

pub async fn debug_case() {
  let (cl, peer) = tokio::io::duplex(1 << 20);
  let client: Client<Compat<DuplexStream>, HS, S2mService> = Client::new(
    "t",
    CConfig { max_idle_connections: 1, heartbeat_interval: Duration::from_secs(3600), connect_timeout: Duration::from_secs(1),
      timeout: Duration::from_millis(100), payload_read_timeout: Duration::from_secs(1), backoff_initial_delay: Duration::from_millis(10),
      backoff_max_delay: Duration::from_millis(10), backoff_max_retries: 1 },
    Arc::new(D(Mutex::new(Some(cl)))), HS(1)).unwrap();
  let mut c = Case { peer, peer_buf: Vec::new(), written: Vec::new(), pongs: Vec::new(), handles: BTreeMap::new(), results: BTreeMap::new(), order: Vec::new(), reported: 0 };
  for id in 1..=4u32 {
    let h = client.send_message(Message::S2mAuth(S2mAuthParameters { id, token: "t".into() }), None).await.unwrap();
    c.handles.insert(id, h); c.order.push(id);
    c.settle(10).await;
    println!("after req {id}: {}", c.obs());
  }
  for _ in 0..12 { c.settle(10).await; println!("t+10: {}", c.obs()); }
}
