#!/usr/bin/env python3
"""Regenerates /verif/MANIFEST.json from lib/props.py (checks) and properties.jsonl (ids)."""
import json, os, sys
ROOT = os.path.dirname(os.path.dirname(os.path.abspath(__file__)))
sys.path.insert(0, os.path.join(ROOT, "lib"))
from props import PROPS, NOT_APPLICABLE, HOOK_COMMITS
ids = [json.loads(l)["id"] for l in open(os.path.join(ROOT, "properties.jsonl"))]
checks = []
for pid in ids:
    if pid not in PROPS:
        continue
    p = PROPS[pid]
    checks.append({
        "property_id": pid,
        "quick_cmd": f"./check {pid} --tier quick",
        "thorough_cmd": f"./check {pid} --tier thorough",
        "evidence_file": f"/verif/evidence/{pid}.json",
        "replay_cmd_template": f"./check {pid} --replay {{path}}",
        "engine": "lean4-proof+correspondence",
        "level_claimed": {"category": "proof", "text": p.get("level_text", ""), "design_ref": p.get("design_ref", f"DESIGN.md section 7 ({pid})")},
        "level_note": p.get("level_note", ""),
        "technique": p.get("technique", "Lean 4 theorems about an executable model; model tied to the code by differential correspondence and a source translator"),
    })
na = []
for pid in ids:
    if pid not in PROPS:
        na.append({"property_id": pid, "reason": NOT_APPLICABLE.get(pid, "check not yet built (build phase in progress); planned per DESIGN.md section 7")})
m = {
    "version": 1,
    "setup_cmd": "./setup.sh",
    "hooks": {"guard": "narwhal_verif", "enable": "rustflags --cfg tokio_unstable --cfg narwhal_verif, set in /verif/harness/.cargo/config.toml (the harness builds /repo's crates as path dependencies)",
              "baseline_off_cmd": "cd /repo && cargo test --workspace --no-fail-fast --offline", "source_commits": HOOK_COMMITS, "add_only": True},
    "engines": [{"name": "lean4-proof+correspondence", "path": "/verif/check", "serves_properties": [c["property_id"] for c in checks],
                 "kind_free_text": "Lean 4 model + theorems (lake, kernel, leanchecker); Rust harness: syn/evaluation translator regenerating model tables, in-process differential correspondence against the real crates, independent property oracles"}],
    "checks": checks,
    "notes": "All checks share /verif/check; see DESIGN.md. Known findings: /verif/known_findings.txt.",
    "not_applicable": na,
}
json.dump(m, open(os.path.join(ROOT, "MANIFEST.json"), "w"), indent=1)
print("checks:", len(checks), "not_applicable:", len(na))
