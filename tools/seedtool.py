#!/usr/bin/env python3
"""seedtool.py — bookkeeping for seeded changes (realistic property-breaking patches written by independent sub-agents).

  seedtool.py keep   <name> <worktree> <property> [<pkg>]   copy patch.diff / demo / SEEDED.md from the agent's scratch worktree to /verif/seeded/<name>/
  seedtool.py verify <name> <worktree>                      confirm in the scratch worktree: suite passes with the patch, demo fails with it, passes without it
  seedtool.py detect <name> <Cxx> [<Cxx> ...]               apply the patch to /repo, run `./check Cxx --tier quick` for each, undo the patch; record who caught it

Nothing is ever committed to /repo; `detect` always restores /repo (git checkout -- .).
"""
import glob
import json
import os
import re
import shutil
import subprocess
import sys
import time

ROOT = os.path.dirname(os.path.dirname(os.path.abspath(__file__)))
SEEDED = os.path.join(ROOT, "seeded")
ENV = dict(os.environ, CARGO_NET_OFFLINE="true")


def sh(cmd, cwd=None, timeout=3600):
    p = subprocess.run(cmd, cwd=cwd, shell=True, capture_output=True, text=True, timeout=timeout, env=ENV)
    return p.returncode, p.stdout + p.stderr


def meta_path(name):
    return os.path.join(SEEDED, name, "meta.json")


def load_meta(name):
    return json.load(open(meta_path(name)))


def save_meta(name, m):
    json.dump(m, open(meta_path(name), "w"), indent=1)


def keep(name, wt, prop, pkg=None):
    d = os.path.join(SEEDED, name)
    os.makedirs(d, exist_ok=True)
    rc, diff = sh("git diff -- crates", cwd=wt)
    open(os.path.join(d, "patch.diff"), "w").write(diff)
    demos = [p for p in glob.glob(os.path.join(wt, "crates/*/tests/seeded_demo*.rs"))]
    rc, untracked = sh("git ls-files --others --exclude-standard -- crates", cwd=wt)
    demo_files = []
    for rel in untracked.split():
        src = os.path.join(wt, rel)
        dst = os.path.join(d, "demo", rel)
        os.makedirs(os.path.dirname(dst), exist_ok=True)
        shutil.copy(src, dst)
        demo_files.append(rel)
    if os.path.exists(os.path.join(wt, "SEEDED.md")):
        shutil.copy(os.path.join(wt, "SEEDED.md"), os.path.join(d, "SEEDED.md"))
    crate = demo_files[0].split("/")[1] if demo_files else None
    pkgname = pkg or {"server": "narwhal-server", "common": "narwhal-common", "util": "narwhal-util", "protocol": "narwhal-protocol",
                      "modulator": "narwhal-modulator"}.get(crate, crate)
    tests = sorted({os.path.splitext(os.path.basename(f))[0] for f in demo_files if "/tests/" in f and f.endswith(".rs")})
    m = {"name": name, "breaks_property": prop, "written_by": "independent sub-agent given only the property text and a scratch worktree",
         "patch": "patch.diff", "demo_files": demo_files, "demo_cmd": f"cargo test --offline -p {pkgname} " + " ".join(f"--test {t}" for t in tests),
         "needs_to_manifest": "", "verified": {}, "detected_by": {}}
    if os.path.exists(meta_path(name)):
        old = load_meta(name)
        for k in ("needs_to_manifest", "verified", "detected_by"):
            if old.get(k):
                m[k] = old[k]
    save_meta(name, m)
    print("kept", name, demo_files)


def count_results(out):
    p = f = 0
    for m in re.finditer(r"test result: \w+\. (\d+) passed; (\d+) failed", out):
        p += int(m.group(1))
        f += int(m.group(2))
    return p, f


def verify(name, wt):
    m = load_meta(name)
    d = os.path.join(SEEDED, name)
    res = {}
    # canonical state: clean tree + demo files
    sh("git checkout -q -- . && git clean -fdq crates", cwd=wt)
    for rel in m["demo_files"]:
        os.makedirs(os.path.dirname(os.path.join(wt, rel)), exist_ok=True)
        shutil.copy(os.path.join(d, "demo", rel), os.path.join(wt, rel))
    rc, out = sh(m["demo_cmd"], cwd=wt)
    res["demo_without_patch"] = {"rc": rc, "passed_failed": count_results(out)}
    rc, out = sh(f"git apply {os.path.join(d, 'patch.diff')}", cwd=wt)
    if rc != 0:
        res["apply"] = out[-500:]
    rc, out = sh(m["demo_cmd"], cwd=wt)
    res["demo_with_patch"] = {"rc": rc, "passed_failed": count_results(out), "tail": "\n".join(l for l in out.split("\n") if "panicked" in l or "FAILED" in l)[:600]}
    for rel in m["demo_files"]:
        os.unlink(os.path.join(wt, rel))
    rc, out = sh("cargo test --workspace --no-fail-fast --offline", cwd=wt)
    res["suite_with_patch"] = {"rc": rc, "passed_failed": count_results(out)}
    sh("git checkout -q -- . && git clean -fdq crates", cwd=wt)
    ok = (res["demo_without_patch"]["rc"] == 0 and res["demo_with_patch"]["rc"] != 0 and res["suite_with_patch"]["rc"] == 0
          and res["suite_with_patch"]["passed_failed"][0] >= 114 and res["suite_with_patch"]["passed_failed"][1] == 0)
    res["confirmed"] = ok
    res["at"] = time.strftime("%Y-%m-%dT%H:%M:%S")
    m["verified"] = res
    save_meta(name, m)
    print(name, "confirmed" if ok else "NOT CONFIRMED", json.dumps(res)[:600])


def detect(name, props):
    m = load_meta(name)
    d = os.path.join(SEEDED, name)
    rc, st = sh("git status --porcelain", cwd="/repo")
    if st.strip():
        print("refusing: /repo has uncommitted changes:\n" + st)
        return 2
    rc, out = sh(f"git apply {os.path.join(d, 'patch.diff')}", cwd="/repo")
    if rc != 0:
        print("patch does not apply to /repo:", out)
        return 2
    try:
        for p in props:
            t0 = time.time()
            rc, out = sh(f"./check {p} --tier quick", cwd=ROOT, timeout=3000)
            vio = [l for l in out.split("\n") if l.startswith("VIOLATION")]
            detail = [l for l in out.split("\n") if l.startswith("  ")][:6]
            m["detected_by"][p] = {"rc": rc, "violation": vio[0] if vio else "", "detail": "\n".join(detail)[:900], "wall_s": round(time.time() - t0, 1)}
            print(name, p, "rc=", rc, vio[0] if vio else "(no violation line)")
            for l in detail[:4]:
                print("   ", l[:220])
    finally:
        sh("git checkout -- .", cwd="/repo")
        # the runs above rewrote evidence and regenerated tables from the patched tree: restore the committed ones
        sh("git checkout -- evidence lean/Narwhal/Generated", cwd=ROOT)
        sh("git -C /repo status --porcelain")
    save_meta(name, m)
    return 0


if __name__ == "__main__":
    a = sys.argv[1:]
    if a[0] == "keep":
        keep(a[1], a[2], a[3], a[4] if len(a) > 4 else None)
    elif a[0] == "verify":
        verify(a[1], a[2])
    elif a[0] == "detect":
        sys.exit(detect(a[1], a[2:]))
