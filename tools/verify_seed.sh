#!/bin/bash
# verify_seed.sh <Cxx> <demo-file-name> <dest dir inside repo> <cargo test args...>
# Confirms in the scratch worktree /tmp/wt_<Cxx>: with the patch the demo fails and the existing suite passes; without it the demo passes.
set -u
P=$1; DEMO=$2; DEST=$3; shift 3
WT=/tmp/wt_$P; M=/tmp/mut_$P; LOG=$M/verify.log
cd $WT || exit 2
git checkout -q -- . ; git clean -fdq crates
mkdir -p $WT/$DEST; cp $M/demo/$DEMO $WT/$DEST/ || exit 2
{
echo "== without patch: demo"; cargo test --offline "$@" 2>&1 | grep -E "^test result|FAILED|panicked" | head -5
git apply $M/patch.diff || echo "APPLY FAILED"
echo "== with patch: demo"; cargo test --offline "$@" 2>&1 | grep -E "^test result|FAILED|panicked" | head -5
rm -f $WT/$DEST/$DEMO
echo "== with patch: existing suite"; cargo test --workspace --no-fail-fast --offline 2>&1 | grep -E "^test result" | awk '{p+=$4; f+=$6} END {print "passed",p,"failed",f}'
git checkout -q -- . ; git clean -fdq crates
echo "== done"
} > $LOG 2>&1
