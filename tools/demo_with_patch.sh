#!/bin/bash
# demo_with_patch.sh <Cxx> <demo file> <dest dir in repo> <package> <test name> : runs the demo with the patch applied, logs the tail
P=$1; DEMO=$2; DEST=$3; PKG=$4; T=$5
WT=/tmp/wt_$P; M=/tmp/mut_$P
cd "$WT" || exit 2
git checkout -q -- . && git apply "$M/patch.diff" && mkdir -p "$WT/$DEST" && cp "$M/demo/$DEMO" "$WT/$DEST/$DEMO"
(timeout 300 cargo test --offline -p "$PKG" --test "$T" 2>&1 | tail -15; echo "EXIT=${PIPESTATUS[0]}") > "$M/verify_with_patch.log" 2>&1
git checkout -q -- . ; git clean -fdq crates
